----------------------------- MODULE MC_Symmetry -----------------------------
(* Neutrality of the specification's building blocks (C08, role 1): renaming   *)
(* the candidates by any bijection renames scores, induced rankings, top-m      *)
(* outcomes, dominating tiers and transfer results by the same bijection.       *)
(* Anonymity and representation independence are built into the abstraction     *)
(* (profiles are bags over candidate sets), so for the code they become: one  *)
(* abstract input, many concrete presentations, one behaviour (role 2).         *)
EXTENDS Pairwise, TLC
CONSTANTS Cand, MaxBallots
VARIABLES bag
RECURSIVE Weak(_)
Weak(C) == {<<>>} \cup UNION { {<<g>> \o t : t \in Weak(C \ g)} : g \in (SUBSET C) \ {{}} }
Rankings == Weak(Cand) \ {<<>>}
Init == bag = NoBallots
Add == /\ Cardinality(DOMAIN bag) < MaxBallots
       /\ \E r \in Rankings \ DOMAIN bag, w \in {R(1), R(2), <<1,2>>} : bag' = [x \in DOMAIN bag \cup {r} |-> IF x = r THEN w ELSE bag[x]]
Spec == Init /\ [][Add]_bag
Perms == {f \in [Cand -> Cand] : \A a, b \in Cand : a # b => f[a] # f[b]}
RenS(f, S) == {f[c] : c \in S}
RenR(f, r) == [i \in 1..Len(r) |-> RenS(f, r[i])]
RenBag(f, p) == [q \in {RenR(f, r) : r \in DOMAIN p} |-> p[CHOOSE r \in DOMAIN p : RenR(f, r) = q]]
RenSc(f, sc) == [c \in RenS(f, DOMAIN sc) |-> sc[CHOOSE d \in DOMAIN sc : f[d] = c]]
Vecs == {<<R(1)>>, BordaVec(Cardinality(Cand)), <<R(2), R(1), R(1)>>}
ScoresNeutral == \A f \in Perms, v \in Vecs : Positional(RenBag(f, bag), Cand, v) = RenSc(f, Positional(bag, Cand, v))
GroupNeutral == \A f \in Perms : LET sc == Fpv(bag, Cand) IN Group(RenSc(f, sc), Cand) = RenR(f, Group(sc, Cand))
RenOut(f, o) == [err |-> o.err, elected |-> RenR(f, o.elected), remaining |-> RenR(f, o.remaining),
                 tbs |-> {<<RenS(f, t[1]), RenR(f, t[2])>> : t \in o.tbs}]
ElectNeutral == \A f \in Perms, m \in 1..Cardinality(Cand), tb \in {"none", "random", "borda"} :
   LET sc == Borda(bag, Cand)  rk == Group(Fpv(bag, Cand), Cand) IN
   ElectTop(RenR(f, rk), m, tb, RenSc(f, sc)) = {RenOut(f, o) : o \in ElectTop(rk, m, tb, sc)}
UntiedBag == \A r \in DOMAIN bag : Untied(r)
TiersNeutral == UntiedBag => \A f \in Perms : Tiers(RenBag(f, bag), Cand) = RenR(f, Tiers(bag, Cand))
TransferNeutral == UntiedBag => \A f \in Perms, w \in Cand :
   LET t == Fpv(bag, Cand)[w] IN RFloor(t) >= 1 =>
       FractionalResult(RenBag(f, bag), f[w], t, 1) = RenBag(f, FractionalResult(bag, w, t, 1))
=============================================================================
