------------------------------ MODULE Generators ------------------------------
(* Ballot generators, written from the statements of C14 (structure of the   *)
(* generated profile) and C15 (closed-form tables), not from the code.       *)
(*  (a) Huntington-Hill apportionment, declaratively;                         *)
(*  (b) GenVerdict / WellFormed: what a generate_profile(N) result must be;   *)
(*  (c) preference intervals, their combination, the name-Bradley-Terry and   *)
(*      slate-Bradley-Terry tables as unnormalised integer weights plus a     *)
(*      normaliser (TLC integers are 32 bit: supports <= 20, <= 4 ranked      *)
(*      candidates, cohesion k/D with small D).                               *)
EXTENDS Ballots

(* ------------------------------------------------------------------------- *)
(* (a) Huntington-Hill.  w : sequence of non-negative integer weights (one    *)
(* per voter type, proportional to the given proportions), N seats, s : seat  *)
(* vector.  Priority of the (n+1)-st seat of type i is w_i / sqrt(n(n+1)),    *)
(* compared exactly through its square w_i^2 / (n(n+1)); the first seat of a  *)
(* positive type has infinite priority (every positive type is served before  *)
(* anybody gets a second seat).  s is a Huntington-Hill apportionment iff it   *)
(* hands out N seats, gives nothing to zero-weight types and no seat can be   *)
(* moved from a type i (keeping its first seat) to a type j whose next seat   *)
(* has strictly higher priority than i's last one; exact ties admit either    *)
(* resolution.  Documented corner of the library the code calls (package      *)
(* `apportionment`: "fewer seats than parties; N strongest parties receive    *)
(* one seat"): when N is below the number of positive types the N strongest   *)
(* positive types get one seat each.                                          *)
RECURSIVE SeqSum(_)
SeqSum(s) == IF s = <<>> THEN 0 ELSE Head(s) + SeqSum(Tail(s))
LCM2(a, b) == (a \div GCD(a, b)) * b
RECURSIVE LCMDen(_)
LCMDen(qs) == IF qs = <<>> THEN 1 ELSE LCM2(Head(qs)[2], LCMDen(Tail(qs)))
(* integer weights proportional to a sequence of non-negative rationals *)
IntWeights(qs) == LET D == LCMDen(qs) IN [i \in DOMAIN qs |-> qs[i][1] * (D \div qs[i][2])]
PosTypes(w) == {i \in DOMAIN w : w[i] > 0}
IsHH(w, N, s) ==
  /\ DOMAIN s = DOMAIN w
  /\ \A i \in DOMAIN s : s[i] \in Nat
  /\ SeqSum(s) = N
  /\ \A i \in DOMAIN w : w[i] = 0 => s[i] = 0
  /\ IF N < Cardinality(PosTypes(w))
     THEN /\ \A i \in DOMAIN s : s[i] <= 1
          /\ \A i, j \in PosTypes(w) : (s[i] = 0 /\ s[j] = 1) => w[i] <= w[j]
     ELSE /\ \A i \in PosTypes(w) : s[i] >= 1
          /\ \A i, j \in PosTypes(w) : (i # j /\ s[i] >= 2) =>
                w[i] * w[i] * s[j] * (s[j] + 1) >= w[j] * w[j] * (s[i] - 1) * s[i]
SeatVectors(k, N) == {s \in [1..k -> 0..N] : SeqSum(s) = N}
HHSet(w, N) == {s \in SeatVectors(Len(w), N) : IsHH(w, N, s)}
(* the textbook procedure (seats awarded one at a time to the highest priority), used only to cross-check IsHH in MC_Generators *)
RECURSIVE Award(_,_,_)
Award(w, s, k) == IF k = 0 THEN s ELSE
   LET P == PosTypes(w)
       best == CHOOSE i \in P : \A j \in P : w[i] * w[i] * s[j] * (s[j] + 1) >= w[j] * w[j] * s[i] * (s[i] + 1)
   IN Award(w, [s EXCEPT ![best] = @ + 1], k - 1)
HHSeq(w, N) == LET P == PosTypes(w) IN
   IF N < Cardinality(P)
   THEN LET top == CHOOSE X \in SUBSET P : Cardinality(X) = N /\ \A i \in X, j \in P \ X : w[i] >= w[j]
        IN [i \in DOMAIN w |-> IF i \in top THEN 1 ELSE 0]
   ELSE Award(w, [i \in DOMAIN w |-> IF i \in P THEN 1 ELSE 0], N - Cardinality(P))

(* ------------------------------------------------------------------------- *)
(* (b) structure of a generated profile.  Parameters P:                       *)
(*   kind  generator; C declared candidates; blocs sequence of bloc names;    *)
(*   slate [C -> bloc]; prop [bloc -> Rat]; coh [bloc -> [bloc -> Rat]];      *)
(*   sup [bloc -> [C -> Nat]] the voter bloc's supports (integer weights);    *)
(*   len requested ballot length (short PL) / number of points (cumulative).  *)
NameKinds  == {"PL", "shortPL", "BT", "BT_MCMC", "Cumulative"}      \* candidates drawn from the *combined* interval of the bloc
SlateKinds == {"sPL", "sBT", "sBT_MCMC"}                           \* slate order first, then each slate's own interval
CrossKinds == {"AC", "Cambridge"}                                  \* documented to allow incomplete ballots
FreeKinds  == {"IC", "IAC", "BSpoint", "OneDim", "Spatial", "Clustered"}
CompleteKinds == FreeKinds \cup {"PL", "BT", "BT_MCMC"} \cup SlateKinds
BlocKinds == NameKinds \cup SlateKinds \cup CrossKinds
(* candidates with non-zero support for voters of bloc b *)
Supported(P, b) == IF P.kind \in FreeKinds THEN P.C
                   ELSE IF P.kind \in NameKinds THEN {c \in P.C : P.sup[b][c] > 0 /\ P.coh[b][P.slate[c]][1] > 0}
                   ELSE {c \in P.C : P.sup[b][c] > 0}
NoRepeat(r) == \A i, j \in 1..Len(r) : i # j => r[i] \cap r[j] = {}
(* complete: the supported candidates in a strict order, then -- only if there are any -- the zero-support candidates as one final tied group *)
CompleteOK(r, S, Z) == LET k == Cardinality(S) IN
   /\ Len(r) = k + (IF Z = {} THEN 0 ELSE 1)
   /\ \A i \in 1..k : Cardinality(r[i]) = 1
   /\ UNION {r[i] : i \in 1..k} = S
   /\ Z # {} => r[k + 1] = Z
(* short Plackett-Luce: exactly L candidates listed; supported ones ranked strictly, zero-support ones only to fill up, tied, at the end *)
ShortOK(r, S, Z, L) == LET k == IF L < Cardinality(S) THEN L ELSE Cardinality(S) IN
   /\ Len(r) = k + (IF L > Cardinality(S) THEN 1 ELSE 0)
   /\ \A i \in 1..k : Cardinality(r[i]) = 1 /\ r[i] \subseteq S
   /\ L > Cardinality(S) => (r[k + 1] \subseteq Z /\ Cardinality(r[k + 1]) = L - Cardinality(S))
   /\ Cardinality(Listed(r)) = L
(* cumulative: a score ballot [cand -> Rat] handing exactly L whole points to supported candidates *)
CumulativeOK(sc, S, L) == /\ DOMAIN sc \subseteq S
                          /\ \A c \in DOMAIN sc : sc[c][2] = 1 /\ sc[c][1] > 0
                          /\ SumRat(sc, DOMAIN sc) = R(L)
ItemCands(P, x) == IF P.kind = "Cumulative" THEN DOMAIN x ELSE Listed(x)
ItemClause(P, x, b) == LET S == Supported(P, b)  Z == P.C \ S IN
   IF P.kind \in CompleteKinds /\ ~CompleteOK(x, S, Z) THEN "Incomplete"
   ELSE IF P.kind = "shortPL" /\ ~ShortOK(x, S, Z, P.len) THEN "ShortLength"
   ELSE IF P.kind = "Cumulative" /\ ~CumulativeOK(x, S, P.len) THEN "CumulativePoints"
   ELSE ""
BlocSet(P) == IF P.kind \in FreeKinds THEN {""} ELSE ToSet(P.blocs)
(* voter types and their shares: one per bloc; for the crossover models (bloc, cross) per bloc *)
TypeShares(P) == LET n == Len(P.blocs) IN
   IF P.kind \in CrossKinds
   THEN [i \in 1..(2 * n) |-> LET b == P.blocs[(i + 1) \div 2] IN
            IF i % 2 = 1 THEN RMul(P.coh[b][b], P.prop[b]) ELSE RMul(RSub(R(1), P.coh[b][b]), P.prop[b])]
   ELSE [i \in 1..n |-> P.prop[P.blocs[i]]]
OwnFirst(P, b, g) == SumRat(g, {x \in DOMAIN g : \A c \in x[1] : P.slate[c] = b})
TypeSizes(P, bags) == LET n == Len(P.blocs) IN
   IF P.kind \in CrossKinds
   THEN [i \in 1..(2 * n) |-> LET b == P.blocs[(i + 1) \div 2]  own == OwnFirst(P, b, bags[b]) IN
            IF i % 2 = 1 THEN own[1] ELSE RSub(Total(bags[b]), own)[1]]
   ELSE [i \in 1..n |-> Total(bags[P.blocs[i]])[1]]
SumBags(P, bags) == FoldSet(LAMBDA b, acc : BagAdd(bags[b], acc), NoBallots, ToSet(P.blocs))
(* the first clause of the C14 statement that the result violates ("" = none).  bag: the aggregate profile (item |-> weight),  *)
(* byb: per-bloc profiles were requested, bags: [bloc -> bag], dropped: ballots the projection had to drop because they mark   *)
(* nobody or carry no positive weight (not ballots under any model), err: exception class raised instead of returning.         *)
GenVerdict(P, N, bag, byb, bags, dropped, err) ==
  LET all == {bag} \cup (IF byb THEN {bags[b] : b \in ToSet(P.blocs)} ELSE {}) IN
  IF err # "" THEN "Error:" \o err
  ELSE IF dropped # 0 THEN "EmptyBallot"
  ELSE IF \E g \in all : \E x \in DOMAIN g : g[x][2] # 1 \/ g[x][1] <= 0 THEN "WholeWeights"
  ELSE IF Total(bag) # R(N) THEN "TotalWeight"
  ELSE IF \E g \in all : \E x \in DOMAIN g : ~(ItemCands(P, x) \subseteq P.C) THEN "UndeclaredCandidate"
  ELSE IF P.kind # "Cumulative" /\ \E g \in all : \E x \in DOMAIN g : ~NoRepeat(x) THEN "RepeatedCandidate"
  ELSE IF \E x \in DOMAIN bag : \A b \in BlocSet(P) : ItemClause(P, x, b) # ""
       THEN (LET x == CHOOSE y \in DOMAIN bag : \A b \in BlocSet(P) : ItemClause(P, y, b) # "" IN
             ItemClause(P, x, CHOOSE b \in BlocSet(P) : TRUE))
  ELSE IF byb /\ \E b \in ToSet(P.blocs) : \E x \in DOMAIN bags[b] : ItemClause(P, x, b) # ""
       THEN (LET b == CHOOSE d \in ToSet(P.blocs) : \E x \in DOMAIN bags[d] : ItemClause(P, x, d) # "" IN
             ItemClause(P, CHOOSE x \in DOMAIN bags[b] : ItemClause(P, x, b) # "", b))
  ELSE IF byb /\ SumBags(P, bags) # bag THEN "BlocSum"
  ELSE IF byb /\ P.kind \in BlocKinds /\ ~IsHH(IntWeights(TypeShares(P)), N, TypeSizes(P, bags)) THEN "Apportionment"
  ELSE ""
WellFormed(P, N, bag, byb, bags) == GenVerdict(P, N, bag, byb, bags, 0, "") = ""

(* ------------------------------------------------------------------------- *)
(* (c) closed forms.  A support function is [cand -> Nat].                    *)
NonZero(sup) == {c \in DOMAIN sup : sup[c] > 0}
ZeroC(sup)   == DOMAIN sup \ NonZero(sup)
SupSum(sup)  == SumInt(sup, DOMAIN sup)
(* the interval: supports rescaled to sum to one, zero-support candidates set aside.  Unnormalised weight sup[c], normaliser SupSum *)
Interval(sup) == [c \in NonZero(sup) |-> Norm(sup[c], SupSum(sup))]
(* the same on rational supports (used for idempotence / scale invariance in MC_Generators) *)
NormaliseR(f) == LET nz == {c \in DOMAIN f : f[c][1] > 0} IN [c \in nz |-> RDiv(f[c], SumRat(f, DOMAIN f))]
(* combination: sups [slate -> support function] on disjoint candidate sets, coh [slate -> Rat]: each interval times its cohesion share *)
CombCands(sups) == UNION {DOMAIN sups[b] : b \in DOMAIN sups}
SlateOfC(sups, c) == CHOOSE b \in DOMAIN sups : c \in DOMAIN sups[b]
CombinedR(sups, coh) == NormaliseR([c \in CombCands(sups) |-> LET b == SlateOfC(sups, c) IN RMul(coh[b], Norm(sups[b][c], SupSum(sups[b])))])
(* integer form: coh[b] = k_b / D;  weight k_b * sup_b[c] * prod_{b' # b} SupSum(b'), reduced by the common divisor; normaliser = their sum *)
CohDen(sups, coh) == FoldSet(LAMBDA b, acc : LCM2(coh[b][2], acc), 1, DOMAIN sups)
SumProd(sups, X) == FoldSet(LAMBDA b, acc : SupSum(sups[b]) * acc, 1, X)
CombRaw(sups, coh) == LET D == CohDen(sups, coh) IN
   [c \in CombCands(sups) |-> LET b == SlateOfC(sups, c) IN
        (coh[b][1] * (D \div coh[b][2])) * sups[b][c] * SumProd(sups, DOMAIN sups \ {b})]
GCDSet(f) == FoldSet(LAMBDA c, acc : GCD(f[c], acc), 0, DOMAIN f)
CombW(sups, coh) == LET raw == CombRaw(sups, coh)  g == GCDSet(raw) IN [c \in NonZero(raw) |-> raw[c] \div g]
CombZero(sups, coh) == CombCands(sups) \ DOMAIN CombW(sups, coh)
(* name-Bradley-Terry on weights x [cand -> positive Nat]: P(r) proportional to the product over ordered pairs (a above b) of x_a/(x_a+x_b). *)
(* Every ranking mentions every unordered pair once, so the denominators are common: unnormalised weight = product of x_a over pairs.       *)
RECURSIVE IPow(_,_)
IPow(a, k) == IF k = 0 THEN 1 ELSE a * IPow(a, k - 1)
PairsOf(r) == {p \in (1..Len(r)) \X (1..Len(r)) : p[1] < p[2]}
BTW(x, r)    == FoldSet(LAMBDA p, acc : x[r[p[1]]] * acc, 1, PairsOf(r))
BTPow(x, r)  == FoldSet(LAMBDA i, acc : IPow(x[r[i]], Len(r) - i) * acc, 1, 1..Len(r))
BTPair(x, r) == FoldSet(LAMBDA p, acc : RMul(Norm(x[r[p[1]]], x[r[p[1]]] + x[r[p[2]]]), acc), R(1), PairsOf(r))
(* the common denominator of the pairwise form: product over unordered pairs of (x_a + x_b) *)
BTDen(x)    == FoldSet(LAMBDA S, acc : SumInt(x, S) * acc, 1, {S \in SUBSET DOMAIN x : Cardinality(S) = 2})
BTZ(x)       == FoldSet(LAMBDA r, acc : BTW(x, r) + acc, 0, Orders(DOMAIN x))
BTTable(x)   == [r \in Orders(DOMAIN x) |-> BTW(x, r)]
(* slate-Bradley-Terry for a voter of bloc "o" (own) against "p" (the other slate): types are the distinct orderings of n_o own and n_p  *)
(* other entries; weight cohesion^(own-above-other pairs) (1-cohesion)^(other-above-own pairs) with cohesion k/D                          *)
SBTypes(no, np) == {t \in [1..(no + np) -> {"o", "p"}] : Cardinality({i \in 1..(no + np) : t[i] = "o"}) = no}
OwnAbove(t) == Cardinality({p \in PairsOf(t) : t[p[1]] = "o" /\ t[p[2]] = "p"})
OppAbove(t) == Cardinality({p \in PairsOf(t) : t[p[1]] = "p" /\ t[p[2]] = "o"})
SBTW(t, k, D) == IPow(k, OwnAbove(t)) * IPow(D - k, OppAbove(t))
SBTZ(no, np, k, D) == FoldSet(LAMBDA t, acc : SBTW(t, k, D) + acc, 0, SBTypes(no, np))
=============================================================================
