----------------------------- MODULE MC_Election -----------------------------
(* Bounded model of Election: inputs are *built by actions* (AddBallot ...    *)
(* Start), so every profile / configuration within the bound is part of the   *)
(* state space and TLC decides "for every profile, every m, every random      *)
(* outcome" for the design.  Terminal behaviours are emitted as NDJSON for    *)
(* role 3 (spec behaviours replayed against the code) when EMIT_FILE is set.  *)
EXTENDS Election, Json, IOUtils
CONSTANTS Cand, MaxBallots, MaxW, Family, WithHalf
VARIABLES target
mvars == <<vars, target>>

Untieds(C) == UNION { {s \in [1..k -> C] : \A i, j \in 1..k : i # j => s[i] # s[j]} : k \in 1..Cardinality(C) }
(* weak partial orders: sequences of disjoint non-empty sets *)
RECURSIVE Weak(_)
Weak(C) == {<<>>} \cup UNION { {<<g>> \o t : t \in Weak(C \ g)} : g \in (SUBSET C) \ {{}} }
Rankings == IF Family \in {"oneshot", "dictators"} THEN Weak(Cand) \ {<<>>} ELSE {Singles(s) : s \in Untieds(Cand)}
Weights == {R(w) : w \in 1..MaxW} \cup (IF WithHalf THEN {<<1,2>>, <<3,2>>} ELSE {})
NC == Cardinality(Cand)
Base == [rule |-> "STV", m |-> 1, quota |-> "droop", simul |-> TRUE, xfer |-> "fractional", tb |-> "none", m1 |-> 0, vec |-> <<>>]
Configs ==
  CASE Family = "stv" ->
         {[Base EXCEPT !.rule = "STV", !.m = m, !.quota = q, !.simul = sm, !.xfer = x, !.tb = tb] :
             m \in 1..NC, q \in {"droop", "hare"}, sm \in BOOLEAN, x \in {"fractional", "random"}, tb \in {"none", "random", "borda", "first_place"}}
         \cup {[Base EXCEPT !.rule = "SequentialRCV", !.m = m, !.quota = q, !.simul = sm, !.xfer = "full", !.tb = tb] :
             m \in 1..NC, q \in {"droop", "hare"}, sm \in BOOLEAN, tb \in {"none", "random"}}
         \cup {[Base EXCEPT !.rule = "IRV", !.quota = q, !.tb = tb] : q \in {"droop", "hare"}, tb \in {"none", "random"}}
    [] Family = "droop" ->      \* the C07 domain: Droop quota, both modes, both built-in transfers
         {[Base EXCEPT !.rule = "STV", !.m = m, !.simul = sm, !.xfer = x, !.tb = tb] :
             m \in 1..NC, sm \in BOOLEAN, x \in {"fractional", "random"}, tb \in {"none", "random", "borda"}}
         \cup {[Base EXCEPT !.rule = "IRV", !.tb = tb] : tb \in {"none", "random"}}
    [] Family = "droop_random" ->   \* integer arithmetic only (no fractional transfer): used by the simulation runs on larger models
         {[Base EXCEPT !.rule = "STV", !.m = m, !.simul = sm, !.xfer = "random", !.tb = tb] :
             m \in 1..NC, sm \in BOOLEAN, tb \in {"none", "random", "borda"}}
    [] Family = "oneshot" ->
         {[Base EXCEPT !.rule = r, !.m = m, !.tb = tb] : r \in {"Plurality", "SNTV"}, m \in 1..NC, tb \in {"none", "random", "borda", "first_place"}}
         \cup {[Base EXCEPT !.rule = "Borda", !.m = m, !.tb = tb, !.vec = v] : m \in 1..NC, tb \in {"none", "random", "first_place"},
                  v \in {BordaVec(NC), <<R(1)>>, <<R(2), R(1), R(1), R(0)>>, <<<<3,2>>, <<1,2>>>>}}
    [] Family = "composite" ->
         {[Base EXCEPT !.rule = "TopTwo", !.tb = tb] : tb \in {"none", "random", "borda"}}
         \cup {[Base EXCEPT !.rule = "Alaska", !.m = m2, !.m1 = m1, !.quota = q, !.simul = sm, !.tb = tb] :
                  m1 \in 1..NC, m2 \in 1..NC, q \in {"droop"}, sm \in BOOLEAN, tb \in {"none", "random"}}
    [] Family = "tiered" ->
         {[Base EXCEPT !.rule = "DominatingSets"]} \cup {[Base EXCEPT !.rule = "CondoBorda", !.m = m] : m \in 1..NC}
    [] Family = "dictators" ->
         {[Base EXCEPT !.rule = r, !.m = m] : r \in Dictators, m \in 1..NC}
    [] Family = "veto" -> {[Base EXCEPT !.rule = "PluralityVeto", !.m = m] : m \in 1..NC}
ValidFor(c, p) == /\ (c.rule = "Alaska" => c.m1 >= c.m)
                  /\ (c.xfer = "random" \/ c.rule = "PluralityVeto" => IntegerBag(p))
                  /\ (c.rule = "DominatingSets" => DOMAIN p # {})

(* every order in which the voters (unit ballots) of an integer bag can be asked: the environment's choice for PluralityVeto *)
VoterOrders(p) == LET U == SetToSeq({x \in (DOMAIN p) \X (1..4) : x[2] <= p[x[1]][1]})
                      N == Len(U)
                  IN {[i \in 1..N |-> U[s[i]][1]] : s \in Orders(1..N)}
MInit == /\ target \in 0..MaxBallots /\ status = "build" /\ prof = NoBallots /\ prof0 = NoBallots /\ sprof0 = NoBallots
         /\ cands = Cand /\ scands = Cand /\ cur = Cand /\ thr = 0 /\ rounds = <<>> /\ cfg = Base /\ stage = "main" /\ plabel = R(1)
         /\ vorder = <<>>
AddBallot == /\ status = "build" /\ Cardinality(DOMAIN prof) < target
             /\ \E r \in Rankings \ DOMAIN prof : \E w \in Weights :
                   prof' = [x \in DOMAIN prof \cup {r} |-> IF x = r THEN w ELSE prof[x]]
             /\ UNCHANGED <<cfg, cands, prof0, sprof0, scands, cur, thr, rounds, status, stage, plabel, target, vorder>>
Start == /\ status = "build" /\ Cardinality(DOMAIN prof) = target
         /\ \E c \in Configs : ValidFor(c, prof) /\
              \E vo \in (IF c.rule = "PluralityVeto" THEN VoterOrders(prof) ELSE {<<>>}) : StartNext(c, prof, Cand, vo)
         /\ UNCHANGED target
MElectSimul == ElectSimul /\ UNCHANGED target
MElectOne == ElectOne /\ UNCHANGED target
MDefaultElect == DefaultElect /\ UNCHANGED target
MEliminate == Eliminate /\ UNCHANGED target
MOneShotElect == OneShotElect /\ UNCHANGED target
MTieredElect == TieredElect /\ UNCHANGED target
MCut == Cut /\ UNCHANGED target
MRunoff == Runoff /\ UNCHANGED target
MDictatorDraw == DictatorDraw /\ UNCHANGED target
MDictatorExhausted == DictatorExhausted /\ UNCHANGED target
MBoostedDraw == BoostedDraw /\ UNCHANGED target
MLastCandidate == LastCandidate /\ UNCHANGED target
MVetoEliminate == VetoEliminate /\ UNCHANGED target
MVetoShort == VetoShort /\ UNCHANGED target
MVetoElect == VetoElect /\ UNCHANGED target
MNext == AddBallot \/ Start \/ MElectSimul \/ MElectOne \/ MDefaultElect \/ MEliminate \/ MOneShotElect \/ MTieredElect \/ MCut \/ MRunoff \/ MDictatorDraw \/ MDictatorExhausted \/ MBoostedDraw \/ MLastCandidate \/ MVetoEliminate \/ MVetoShort \/ MVetoElect
MSpec == MInit /\ [][MNext]_mvars /\ WF_mvars(MNext)

\* ---- invariants (one INVARIANT line per property clause in the .cfg)
MTypeOK == Started => /\ \A r \in DOMAIN prof : IsRanking(r, cur) /\ IsRat(prof[r]) /\ prof[r][1] > 0
                      /\ cur \subseteq cands /\ IsRat(plabel)
MPartition == Started => PartitionLast
MBounded == Started => BoundedRounds
MErrorDiscipline == Started => ErrorDiscipline
MConservation == Started => ConservationLast
MTiebreaks == Started => TiebreaksWellFormed
MDPC == Started => DPC
MExactlySeats == Started => ExactlySeats
(* known finding KF-C01-overelect is a *design* fact: with the Hare quota, or with SequentialRCV's full-weight *)
(* transfer, more candidates can stand at/above the threshold than seats remain.                               *)
MNoOverElectionDroop == (Started /\ DPCApplies) => NeverOverElected
MProbSum == Started => ProbSum
MRandomOnlyWithTiebreak == [][(Started /\ status = "running" /\ plabel' # R(1) /\ ~RandomByRequest /\ Len(rounds') > Len(rounds))
                               => rounds'[Len(rounds')].tiebreaks # {}]_mvars
MProgress == [][status = "running" /\ status' = "running" => Variant' < Variant]_mvars
MMonotone == [][Started => ElectedSoFar \subseteq ElectedSoFar' /\ EliminatedSoFar \subseteq EliminatedSoFar']_mvars
MThresholdFixed == [][Started /\ stage = "main" /\ stage' = "main" => thr' = thr]_mvars
Termination == <>(status \in {"finished", "ValueError", "overelected"})
(* C17 / ProbSum: the labels of the successors of a running state sum to one (checked as an invariant: *)
(* evaluated on the successor *set* with ENABLED-free enumeration is not expressible; see MC_ProbSum)   *)

\* ---- role 3: emit terminal behaviours
RatJ(x) == <<x[1], x[2]>>
SetJ(S) == SetToSortSeq(S, LAMBDA a, b : a < b)
RankJ(r) == [i \in 1..Len(r) |-> SetToSeq(r[i])]
BagJ(p) == SetToSeq({[r |-> RankJ(r), w |-> RatJ(p[r])] : r \in DOMAIN p})
RoundJ(x) == [elected |-> RankJ(x.elected), eliminated |-> RankJ(x.eliminated), remaining |-> RankJ(x.remaining),
              scores |-> SetToSeq({<<c, RatJ(x.scores[c])>> : c \in DOMAIN x.scores}),
              tiebreaks |-> SetToSeq({[tied |-> SetToSeq(t[1]), order |-> RankJ(t[2])] : t \in x.tiebreaks}),
              bag |-> BagJ(x.bag)]
Behaviour == [cfg |-> cfg, prof0 |-> BagJ(prof0), thr |-> thr, status |-> status,
              rounds |-> [i \in 1..Len(rounds) |-> RoundJ(rounds[i])]]
Emit == (status \in {"finished", "ValueError", "overelected"} /\ "EMIT_FILE" \in DOMAIN IOEnv) =>
          Serialize(ToJson(Behaviour) \o "\n", IOEnv.EMIT_FILE,
                    [format |-> "TXT", charset |-> "UTF-8", openOptions |-> <<"WRITE", "CREATE", "APPEND">>]).exitValue = 0
=============================================================================
