----------------------------- MODULE Validation -----------------------------
(* C20: which requests are refused up front, and with which exception class.   *)
(* A request is a record; Expected(req) is the set of acceptable outcomes      *)
(* ("ok", "TypeError", "ValueError").  Written from the statement of C20 and   *)
(* the documented preconditions (DESIGN.md Appendix G), one predicate per      *)
(* precondition.                                                                *)
EXTENDS Rating
STVRules    == {"STV", "IRV", "SequentialRCV"}
RankRules   == STVRules \cup {"Plurality", "SNTV", "Borda", "TopTwo", "Alaska", "DominatingSets", "CondoBorda",
                              "RandomDictator", "BoostedRandomDictator", "PluralityVeto"}
RatingRules == {"GeneralRating", "Rating", "Limited", "Cumulative", "Approval", "BlocPlurality"}
HasSeats    == (RankRules \ {"IRV", "TopTwo", "DominatingSets", "Alaska"}) \cup RatingRules

\* ---- data the rule needs (TypeError)
LacksRanking(q)  == q.rule \in RankRules /\ q.noranking
HasTiedPos(q)    == q.rule \in STVRules \cup {"Alaska"} /\ \E r \in DOMAIN q.prof : ~Untied(r)
(* the random transfer refuses a pile with a non-integer weight when it is applied: a count in which every ballot is led by the same   *)
(* candidate, for one seat and at least two votes in all (so that the leader meets either quota at once), applies it to the whole     *)
(* profile in its first round: the refusal is certain there (other profiles may never reach the transfer)                              *)
OnePile(q)       == /\ q.prof # <<>> /\ q.m = 1 /\ ~RLt(Total(q.prof), R(2))
                    /\ \E c \in UNION {r[1] : r \in DOMAIN q.prof} : \A r \in DOMAIN q.prof : r[1] = {c}
NonIntWeight(q)  == /\ ~(\A r \in DOMAIN q.prof : RIsInt(q.prof[r]))
                    /\ \/ q.rule = "PluralityVeto"
                       \/ (q.rule = "STV" /\ q.xfer = "random" /\ OnePile(q))
BadRatingParams(q) == q.rule \in RatingRules /\
                      LET c == q.rcfg IN
                      \/ (c.rule \in {"GeneralRating", "Rating"} /\ ~RLt(R(0), c.L))
                      \/ (c.rule \in {"GeneralRating", "Limited", "BlocPlurality"} /\ c.hasK /\ ~RLt(R(0), c.k))
                      \/ (c.rule = "GeneralRating" /\ c.hasK /\ RLt(c.k, c.L))
                      \/ (c.rule = "Limited" /\ RLt(R(c.m), c.k))
(* the ballots are judged against the limits only when the limits themselves are admissible: a non-positive or inconsistent limit *)
(* is a parameter error (ValueError), whatever the ballots then look like                                                          *)
BadScores(q)     == q.rule \in RatingRules /\ ~BadRatingParams(q) /\ (q.unscored > 0 \/ ~Accepts(q.sprof, q.rcfg))
TypeViolation(q) == LacksRanking(q) \/ HasTiedPos(q) \/ NonIntWeight(q) \/ BadScores(q)

\* ---- parameters (ValueError)
SeatsOutOfRange(q) == q.rule \in HasSeats /\ (q.m < 1 \/ q.m > q.n)
TooFewForTopTwo(q) == q.rule = "TopTwo" /\ q.n < 2
AlaskaStages(q)    == q.rule = "Alaska" /\ (q.m1 <= 0 \/ q.m <= 0 \/ q.m1 < q.m \/ q.m1 > q.n)
BadVector(q)       == q.rule \in {"Borda", "score_profile_from_rankings", "validate_score_vector"} /\ ~ValidVec(q.vec)
UnknownQuota(q)    == q.rule \in STVRules \cup {"Alaska"} /\ q.quota \notin {"droop", "hare"}
(* generators / helpers: the harness builds the arguments that violate exactly the named precondition *)
RefusedGeneratorRequests == {"props_sum_above", "props_sum_below", "props_sum_gross", "cohesion_sum_above", "cohesion_sum_gross",
                             "names_props_intervals", "names_props_cohesion", "names_intervals_cohesion",
                             "no_candidates", "intervals_overlap", "intervals_overlap_zero_support", "combine_props_sum", "point_sum", "duplicate_candidates_adjacent",
                             "duplicate_candidates_apart", "from_params_props_sum", "from_params_names"}
AcceptedGeneratorRequests == {"", "sum_within_rounding", "cohesion_within_rounding", "combine_within_rounding"}
GeneratorViolation(q) == q.rule = "generator" /\ q.gen \in RefusedGeneratorRequests
ValueViolation(q) == SeatsOutOfRange(q) \/ TooFewForTopTwo(q) \/ AlaskaStages(q) \/ BadVector(q) \/ BadRatingParams(q)
                     \/ UnknownQuota(q) \/ GeneratorViolation(q)
Expected(q) == (IF TypeViolation(q) THEN {"TypeError"} ELSE {}) \cup (IF ValueViolation(q) THEN {"ValueError"} ELSE {})
               \cup (IF ~TypeViolation(q) /\ ~ValueViolation(q) THEN {"ok"} ELSE {})
=============================================================================
