---------------------------- MODULE ElectionTrace ----------------------------
(* Trace validation (code [= spec) for every ranking rule.                    *)
(*                                                                            *)
(* The harness runs the real code, projects election_states (and the profile  *)
(* returned by every _run_step) onto the abstract state and writes one JSON   *)
(* line per run to TRACE_FILE.  Here every logged event must be explained by  *)
(* an enabled action of Election whose post-state equals the logged one, and  *)
(* the property monitors are evaluated on every state of every trace.         *)
(*                                                                            *)
(* Verdicts are *written by the spec* (NDJSON lines appended to VERDICT_FILE) *)
(* so that a batch is validated in time linear in its size; the harness       *)
(* requires exactly one "final" line per trace id.  After a rejected Round    *)
(* event the spec re-synchronises on the logged state so that the rest of     *)
(* the trace is still checked.                                                *)
EXTENDS Election, Json, IOUtils, TLCExt
VARIABLES tid, l, nrej, done
tvars == <<vars, tid, l, nrej, done>>

Traces == ndJsonDeserialize(IOEnv.TRACE_FILE)
T == Traces[tid]
Ev == T.events[l + 1]

SetSeq(js) == [i \in 1..Len(js) |-> ToSet(js[i])]
BagOf(js) == LET S == ToSet(js) IN [r \in {SetSeq(b.r) : b \in S} |-> Rat2((CHOOSE b \in S : SetSeq(b.r) = r).w)]
ScoresOf(js) == LET S == ToSet(js) IN [c \in {x[1] : x \in S} |-> Rat2((CHOOSE x \in S : x[1] = c)[2])]
TbOf(js) == {<<ToSet(t.tied), SetSeq(t.order)>> : t \in ToSet(js)}
RoundOf(e) == [elected |-> SetSeq(e.elected), eliminated |-> SetSeq(e.eliminated), remaining |-> SetSeq(e.remaining),
               scores |-> ScoresOf(e.scores), tiebreaks |-> TbOf(e.tiebreaks), bag |-> BagOf(e.bag)]
VOrderOf(js) == [i \in 1..Len(js) |-> SetSeq(js[i])]
CfgOf(c) == [rule |-> c.rule, m |-> c.m, quota |-> c.quota, simul |-> c.simul, xfer |-> c.xfer, tb |-> c.tb, m1 |-> c.m1,
             vec |-> [i \in 1..Len(c.vec) |-> Rat2(c.vec[i])]]

Write(rec) == Serialize(ToJson(rec) \o "\n", IOEnv.VERDICT_FILE,
                        [format |-> "TXT", charset |-> "UTF-8", openOptions |-> <<"WRITE", "CREATE", "APPEND">>]).exitValue = 0

TInit ==
  /\ tid \in 1..Len(Traces) /\ l = 0 /\ nrej = 0 /\ done = FALSE
  /\ StartInit(CfgOf(Traces[tid].cfg), BagOf(Traces[tid].prof0), ToSet(Traces[tid].cands), VOrderOf(Traces[tid].vorder))

(* the fields of the logged round that a candidate successor must reproduce *)
Fields == <<"elected", "eliminated", "tiebreaks", "bag", "scores", "remaining">>
(* bagknown = FALSE: the implementation does not expose the profile leaving this round except through a replay *)
(* that re-draws the round's random tiebreak (TopTwo's runoff); no property speaks about it                    *)
Match(F) == LET e == RoundOf(Ev)  n == rounds'[Len(rounds')] IN \A f \in F : (f = "bag" /\ ~Ev.bagknown) \/ n[f] = e[f]
LabelOK == Ev.p[2] = 0 \/ cfg.rule = "PluralityVeto" \/ plabel' = Rat2(Ev.p)            \* p = [0,0]: probability not logged (sampled run)
ThrOK == Ev.thr < 0 \/ thr' = Ev.thr
VOrderOK == cfg.rule # "PluralityVeto" \/ status' # "running" \/ vorder' = VOrderOf(Ev.vorder)
(* the stored round number of the new state is its position in election_states (rounds[1] is round 0); rn = -1: not logged *)
RnOK == Ev.rn < 0 \/ Ev.rn = Len(rounds)
RoundStep(F, withLabel) ==
  /\ Next /\ Len(rounds') = Len(rounds) + 1 /\ status' # "ValueError"
  /\ Match(F) /\ ThrOK /\ VOrderOK /\ (withLabel => LabelOK /\ RnOK)
ErrorStep == Next /\ status' = Ev.class

\* ------------------------------------------------------------------ queries on a finished election (C09)
NStates == Len(rounds)
QIdx == IF Ev.r >= 0 THEN Ev.r + 1 ELSE NStates + Ev.r + 1          \* 1-based index into rounds
QInRange == Ev.r >= -NStates /\ Ev.r <= NStates - 1
RECURSIVE ElectedSeq(_)
ElectedSeq(i) == IF i = 0 THEN <<>> ELSE ElectedSeq(i-1) \o rounds[i].elected
RECURSIVE EliminatedSeq(_)
EliminatedSeq(i) == IF i = 0 THEN <<>> ELSE Reverse(rounds[i].eliminated) \o EliminatedSeq(i-1)   \* most recent first
RankingSeq(i) == ElectedSeq(i) \o rounds[i].remaining \o EliminatedSeq(i)
(* a flat row order is consistent with a ranking of sets: each group occupies its own block of rows *)
FlatOK(order, rk) == /\ Len(order) = NumCands(rk)
                     /\ \A g \in 1..Len(rk) : {order[p] : p \in (CardUpTo(rk, g-1) + 1)..CardUpTo(rk, g)} = rk[g]
StatusOf(c, i) ==
  IF \E j \in 1..i : c \in UNION Range(rounds[j].elected) THEN <<c, "Elected", (CHOOSE j \in 1..i : c \in UNION Range(rounds[j].elected)) - 1>>
  ELSE IF \E j \in 1..i : c \in UNION Range(rounds[j].eliminated) THEN <<c, "Eliminated", (CHOOSE j \in 1..i : c \in UNION Range(rounds[j].eliminated)) - 1>>
  ELSE <<c, "Remaining", i - 1>>
(* the profile clauses of C09 are stated for rounds reached without any random choice *)
DeterministicUpTo(i) == ~RandomByRequest /\ \A j \in 1..i : rounds[j].tiebreaks = {}
QueryClause ==
  LET i == QIdx IN
  IF ~QInRange THEN (IF Ev.error = "IndexError" THEN "" ELSE "Query:OutOfRangeAccepted")
  ELSE IF ~Ev.same THEN "Query:Impure"                                                        \* purity holds for every query
  ELSE IF Ev.name \in {"get_profile", "get_step"} /\ ~DeterministicUpTo(i) THEN ""          \* outside the statement
  ELSE IF Ev.error # "" THEN "Query:Error:" \o Ev.error
  ELSE CASE Ev.name = "get_elected"    -> IF SetSeq(Ev.groups) = ElectedSeq(i) THEN "" ELSE "Query:Elected"
         [] Ev.name = "get_eliminated" -> IF SetSeq(Ev.groups) = EliminatedSeq(i) THEN "" ELSE "Query:Eliminated"
         [] Ev.name = "get_remaining"  -> IF SetSeq(Ev.groups) = rounds[i].remaining THEN "" ELSE "Query:Remaining"
         [] Ev.name = "get_ranking"    -> IF SetSeq(Ev.groups) = RankingSeq(i) THEN "" ELSE "Query:Ranking"
         [] Ev.name = "get_status_df"  -> IF {<<x[1], x[2], x[3]>> : x \in ToSet(Ev.status)} # {StatusOf(c, i) : c \in cands} THEN "Query:Status"
                                          ELSE IF ~FlatOK(Ev.order, RankingSeq(i)) THEN "Query:StatusOrder" ELSE ""
         [] Ev.name = "len"            -> IF Ev.len = NStates - 1 THEN "" ELSE "Query:Len"
         [] Ev.name \in {"get_profile", "get_step"} ->
              IF ToSet(Ev.cands) # RemainingOf(i) THEN "Query:ProfileCands"
              ELSE IF Ev.hasrescore /\ ScoresOf(Ev.rescored) # rounds[i].scores THEN "Query:ProfileRescore"
              ELSE IF BagOf(Ev.bag) # rounds[i].bag THEN "Query:ProfileBag"
              ELSE IF Ev.name = "get_step" /\ RoundOf(Ev.state) # [rounds[i] EXCEPT !.bag = BagOf(Ev.state.bag)] THEN "Query:StepState"
              ELSE ""
         [] OTHER -> "Query:Unknown"
(* the snapshot of election_states logged after the whole history must still be the recorded rounds *)
SnapshotClause == IF [j \in 1..Len(Ev.rounds) |-> [RoundOf(Ev.rounds[j]) EXCEPT !.bag = NoBallots]] = [j \in 1..Len(rounds) |-> [rounds[j] EXCEPT !.bag = NoBallots]]
                  THEN "" ELSE "Query:RecordedRoundsChanged"
QueryStep == /\ status \in {"finished"} /\ (IF Ev.ev = "Query" THEN QueryClause ELSE SnapshotClause) = ""
             /\ UNCHANGED vars

AllFields == {"elected", "eliminated", "tiebreaks", "bag", "scores", "remaining"}
Step ==
  /\ ~done /\ l < Len(T.events)
  /\ IF Ev.ev = "Round" THEN RoundStep(AllFields, TRUE) ELSE IF Ev.ev = "Error" THEN ErrorStep
     ELSE IF Ev.ev \in {"Query", "Snapshot"} THEN QueryStep ELSE FALSE
  /\ l' = l + 1 /\ UNCHANGED <<tid, nrej, done>>

KF_veto_below == /\ cfg.rule = "PluralityVeto" /\ l < Len(T.events) /\ Ev.ev = "Round"
                 /\ Cardinality(cur \ UNION Range(SetSeq(Ev.eliminated))) < cfg.m /\ Ev.elected = <<>>
Flags == SetToSeq(KFlags \cup (IF KF_veto_below THEN {"veto_below"} ELSE {}))

(* which clause of the logged round no successor reproduces (first in this order) *)
Clause ==
  IF Ev.ev = "Error" THEN "Error:" \o Ev.class
  ELSE IF Ev.ev = "Query" THEN (IF status # "finished" THEN "Query:NotFinished" ELSE QueryClause)
  ELSE IF Ev.ev = "Snapshot" THEN (IF status # "finished" THEN "Query:NotFinished" ELSE SnapshotClause)
  ELSE IF Ev.ev # "Round" THEN Ev.ev
  ELSE IF status # "running" THEN "RoundAfter:" \o status
  ELSE IF ~ENABLED RoundStep({}, FALSE) THEN "NoRoundEnabled"
  ELSE IF ~ENABLED RoundStep({"elected", "eliminated"}, FALSE) THEN "Who"
  ELSE IF ~ENABLED RoundStep({"elected", "eliminated", "tiebreaks"}, FALSE) THEN "Tiebreak"
  ELSE IF ~ENABLED RoundStep({"elected", "eliminated", "tiebreaks", "bag"}, FALSE) THEN "Bag"
  ELSE IF ~ENABLED RoundStep({"elected", "eliminated", "tiebreaks", "bag", "scores"}, FALSE) THEN "Scores"
  ELSE IF ~ENABLED RoundStep(AllFields, FALSE) THEN "Remaining"
  ELSE IF ~ENABLED RoundStep(AllFields, TRUE) THEN (IF RnOK THEN "Label" ELSE "RoundNumber")
  ELSE "Threshold"

(* the logged round can only be adopted as the next state if it is internally coherent: tallies for exactly the standing candidates *)
(* (or none, for rules without tallies) and ballots that mention standing candidates only; otherwise the trace ends here            *)
ResyncPossible == LET e == RoundOf(Ev)  C == UNION Range(e.remaining) IN
   /\ (DOMAIN e.scores = C \/ (DOMAIN e.scores = {} /\ (C = {} \/ cfg.rule = "DominatingSets")))
   /\ CandsCast(e.bag) \subseteq C
   /\ C \subseteq cands
(* re-synchronise on the logged round so that the rest of the trace is still examined *)
ResyncBody ==
  /\ Write([tid |-> T.id, kind |-> "reject", l |-> l, clause |-> Clause, status |-> status, rule |-> cfg.rule, flags |-> Flags])
  /\ LET e == RoundOf(Ev) IN
       /\ rounds' = Append(rounds, e) /\ prof' = e.bag /\ cur' = UNION Range(e.remaining)
       /\ status' = IF cfg.rule \in OneShot \cup Tiered \/ (cfg.rule = "TopTwo" /\ stage = "main") THEN "finished"
                    ELSE IF Cardinality(ElectedSoFar') = Seats THEN "finished"
                    ELSE IF Cardinality(ElectedSoFar') > Seats THEN "overelected" ELSE "running"
       /\ stage' = "main"
       /\ sprof0' = IF stage = "cut" THEN e.bag ELSE sprof0
       /\ scands' = IF stage = "cut" THEN UNION Range(e.remaining) ELSE scands
       /\ thr' = IF Ev.thr >= 0 THEN Ev.thr ELSE thr
       /\ plabel' = R(1)
       /\ vorder' = IF cfg.rule = "PluralityVeto" THEN VOrderOf(Ev.vorder) ELSE vorder
  /\ l' = l + 1 /\ nrej' = nrej + 1
  /\ UNCHANGED <<cfg, cands, prof0, tid, done>>

(* a rejected query: report it and go on with the rest of the history *)
QuerySkip ==
  /\ Write([tid |-> T.id, kind |-> "reject", l |-> l, clause |-> Clause, status |-> status, rule |-> cfg.rule, flags |-> Flags])
  /\ l' = l + 1 /\ nrej' = nrej + 1 /\ UNCHANGED <<vars, tid, done>>

(* terminal verdicts: exactly one "final" line per trace *)
FinishBody ==
  /\ LET bad == IF l < Len(T.events) THEN Clause
                ELSE IF status = "running" THEN "Truncated"
                ELSE IF status = "overelected" THEN "OverElected" ELSE "" IN
     Write([tid |-> T.id, kind |-> "final", l |-> l, nrej |-> nrej + (IF bad = "" THEN 0 ELSE 1), clause |-> bad,
            status |-> status, rule |-> cfg.rule, flags |-> Flags])
  /\ done' = TRUE /\ UNCHANGED <<vars, tid, l, nrej>>

Advance ==
  /\ ~done
  /\ IF l = Len(T.events) THEN FinishBody
     ELSE IF ENABLED Step THEN Step
     ELSE IF Ev.ev = "Round" /\ ResyncPossible THEN ResyncBody
     ELSE IF Ev.ev \in {"Query", "Snapshot"} /\ status = "finished" THEN QuerySkip
     ELSE FinishBody

TNext == Advance
TSpec == TInit /\ [][TNext]_tvars

\* ---- monitors: evaluated on every state; a failing monitor writes a line and stays TRUE
Mon(name, P) == P \/ Write([tid |-> T.id, kind |-> "monitor", l |-> l, clause |-> name, status |-> status, rule |-> cfg.rule, flags |-> SetToSeq(KFlags)])
MonRound0 == Mon("Round0", l > 0 \/ rounds[1] = RoundOf(T.round0))
MonThreshold0 == Mon("Threshold0", l > 0 \/ T.thr < 0 \/ thr = T.thr)
MonPartition == Mon("Partition", PartitionLast)
MonExactlySeats == Mon("ExactlySeats", ExactlySeats)
MonBounded == Mon("BoundedRounds", BoundedRounds)
MonConservation == Mon("Conservation", ConservationLast)
MonTiebreaks == Mon("TiebreaksWellFormed", TiebreaksWellFormed)
MonDPC == Mon("DPC", DPC)
(* C10 on the code's own law: the harness labels every step with its exact conditional probability over all outcomes of the
   scripted random source; a step the code can resolve in more than one way must record a tiebreak *)
MonRandomTie == Mon("RandomWithoutTiebreak", l = 0 \/ RandomByRequest \/ T.events[l].ev # "Round"
                      \/ T.events[l].p[2] = 0 \/ T.events[l].p = <<1, 1>> \/ LastR.tiebreaks # {})
=============================================================================
