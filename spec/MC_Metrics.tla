------------------------------ MODULE MC_Metrics ------------------------------
(* Spec-level facts of C19.  Metric axioms for the distances of Metrics.tla on   *)
(* every triple of bags of <= MaxBallots untied (partial) rankings of Cand with  *)
(* weights from Weights, the bags being grown by the Add actions; and the small  *)
(* facts about the ballot graph for n = 2..MaxN (the counter n is advanced       *)
(* first, by IncN, the bags grow once n = MaxN).                                 *)
EXTENDS Metrics, TLC
CONSTANTS Cand, MaxBallots, Weights, MaxN
VARIABLES a, b, c, n
vars == <<a, b, c, n>>
Rankings == UNION {{Singles(o) : o \in Orders(S)} : S \in (SUBSET Cand) \ {{}}}
Grow(x) == {[r \in DOMAIN x \cup {q} |-> IF r = q THEN R(w) ELSE x[r]] : q \in Rankings \ DOMAIN x, w \in Weights}
Init == a = NoBallots /\ b = NoBallots /\ c = NoBallots /\ n = 2
Empty == a = NoBallots /\ b = NoBallots /\ c = NoBallots
IncN == Empty /\ n < MaxN /\ n' = n + 1 /\ UNCHANGED <<a, b, c>>
AddA == n = MaxN /\ Cardinality(DOMAIN a) < MaxBallots /\ a' \in Grow(a) /\ UNCHANGED <<b, c, n>>
AddB == n = MaxN /\ Cardinality(DOMAIN b) < MaxBallots /\ b' \in Grow(b) /\ UNCHANGED <<a, c, n>>
AddC == n = MaxN /\ Cardinality(DOMAIN c) < MaxBallots /\ c' \in Grow(c) /\ UNCHANGED <<a, b, n>>
Spec == Init /\ [][IncN \/ AddA \/ AddB \/ AddC]_vars

NE2 == a # NoBallots /\ b # NoBallots
NE3 == NE2 /\ c # NoBallots
Ks == {1, 2, 3}
DistributionSumsToOne == a # NoBallots => SumRat(Distribution(a), DOMAIN a) = R(1)
Symmetry == NE2 => Linf(a, b) = Linf(b, a) /\ \A k \in Ks : LpPow(a, b, k) = LpPow(b, a, k)
(* zero exactly for profiles with the same distribution *)
Identity == NE2 => /\ SameDistribution(a, b) <=> L1(a, b) = R(0)
                   /\ SameDistribution(a, b) <=> Linf(a, b) = R(0)
                   /\ \A k \in Ks : SameDistribution(a, b) <=> LpPow(a, b, k) = R(0)
ScaleInvariant == NE2 => \A s \in {R(2), R(3), <<1, 2>>} :
                   /\ SameDistribution(Scale(a, s), a)
                   /\ Linf(Scale(a, s), b) = Linf(a, b)
                   /\ \A k \in Ks : LpPow(Scale(a, s), b, k) = LpPow(a, b, k)
Triangle == NE3 => /\ RLe(L1(a, c), RAdd(L1(a, b), L1(b, c)))
                   /\ RLe(Linf(a, c), RAdd(Linf(a, b), Linf(b, c)))
Bounds == NE2 => /\ RLe(R(0), Linf(a, b)) /\ RLe(Linf(a, b), L1(a, b)) /\ RLe(L1(a, b), R(2))
                 /\ \A k \in Ks : RLe(LpPow(a, b, k), L1(a, b)) /\ RLe(RPow(Linf(a, b), k), LpPow(a, b, k))
(* loading a profile keeps the total weight (2 candidates: a bullet vote is completed) *)
CS == SetToSeq(Cand)
NodeWeightsTotal == a # NoBallots => LET nw == NodeWeights(a, CS, TRUE) IN
                      /\ SumRat(nw, DOMAIN nw) = Total(a)
                      /\ \A nd \in DOMAIN nw : Len(nd) = Cardinality(Cand)
(* ballot graph, n = 2..MaxN *)
GraphFacts == Empty =>
   /\ Cardinality(Nodes(n)) = NodeCount(n)
   /\ \A x \in Nodes(n) : Len(x) # n - 1 /\ Len(x) \in 1..n
   /\ \A x, y \in Nodes(n) : (Adjacent(x, y, n) <=> Adjacent(y, x, n)) /\ ~Adjacent(x, x, n)
   /\ Edges(n) = EdgesDef(n)
   /\ \A e \in Edges(n) : Cardinality(e) = 2 /\ e \subseteq Nodes(n)
   /\ FullEdges(n) = {e \in Edges(n) : e \subseteq FullNodes(n)}
   /\ Cardinality(FullNodes(n)) = Fact(n)
=============================================================================
