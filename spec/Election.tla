------------------------------ MODULE Election ------------------------------
(* The round-based state machine behind every ranking rule of VoteKit.       *)
(*                                                                            *)
(* One action per branch of the implementation's _run_step (so that recorded *)
(* rounds of the real code can be replayed action by action), but every      *)
(* action body is written from the *statement* of the rules (C01, C02, C03,  *)
(* C04, C06, C13, C17), not transcribed from the code.                       *)
(*                                                                            *)
(* Abstract election object:                                                  *)
(*   cfg     record: rule, m, quota, simul, xfer, tb, m1, vec                 *)
(*   cands   candidate set of the initial profile                             *)
(*   prof0   initial bag;  sprof0 / scands: bag and candidate set the current *)
(*           *stage* started from (differs from prof0 only after the cut of   *)
(*           TopTwo / Alaska) -- STV breaks elimination ties on it            *)
(*   prof    bag leaving the last recorded round;  cur: candidates still in   *)
(*   thr     election threshold (STV family), fixed when the stage starts     *)
(*   rounds  sequence of round records -- the image of election_states        *)
(*   status  "running" | "finished" | "ValueError" | "overelected"            *)
(*   stage   "cut" (TopTwo/Alaska before the plurality cut) | "main"          *)
(*   plabel  exact probability of the last step given its pre-state           *)
(*   vorder  PluralityVeto only: the voters (unit ballots, as rankings) in the *)
(*           order in which they will be asked for their veto (<<>> otherwise) *)
EXTENDS Pairwise, TLC

VARIABLES cfg, cands, prof0, sprof0, scands, prof, cur, thr, rounds, status, stage, plabel, vorder
vars == <<cfg, cands, prof0, sprof0, scands, prof, cur, thr, rounds, status, stage, plabel, vorder>>

STVFamily  == {"STV", "IRV", "SequentialRCV"}
OneShot    == {"Plurality", "SNTV", "Borda"}
Composite  == {"TopTwo", "Alaska"}
Tiered     == {"DominatingSets", "CondoBorda"}
Dictators  == {"RandomDictator", "BoostedRandomDictator"}
Rules      == STVFamily \cup OneShot \cup Composite \cup Tiered \cup Dictators \cup {"PluralityVeto"}

LastR == rounds[Len(rounds)]
ElectedSoFar    == UNION {UNION Range(rounds[i].elected)    : i \in 1..Len(rounds)}
EliminatedSoFar == UNION {UNION Range(rounds[i].eliminated) : i \in 1..Len(rounds)}
Seats == CASE cfg.rule \in {"IRV", "TopTwo"} -> 1
           [] cfg.rule = "DominatingSets" -> Cardinality(Smith(prof0, cands))
           [] OTHER -> cfg.m
SeatsLeft == Seats - Cardinality(ElectedSoFar)

Threshold(N, m, q) == IF q = "droop" THEN RFloor(RDiv(N, R(m + 1))) + 1 ELSE RFloor(RDiv(N, R(m)))

(* the score function a rule reports in its round records *)
SF(p, C) == CASE cfg.rule = "Borda" -> Positional(p, C, cfg.vec)
              [] cfg.rule = "CondoBorda" -> Borda(p, C)
              [] cfg.rule = "DominatingSets" -> <<>>
              [] OTHER -> Fpv(p, C)
TbScore(tb, p, C) == IF tb = "borda" THEN Borda(p, C) ELSE Fpv(p, C)

Round(el, out, rem, tbs, sc, p) ==
  [elected |-> el, eliminated |-> out, remaining |-> rem, scores |-> sc, tiebreaks |-> tbs, bag |-> p]
Round0(p, C) == IF cfg.rule = "DominatingSets" THEN Round(<<>>, <<>>, <<C>>, {}, <<>>, p)
                ELSE Round(<<>>, <<>>, Group(SF(p, C), C), {}, SF(p, C), p)
(* a round of a tally-driven rule: order and tallies are those of the bag that leaves the round *)
TallyRound(el, out, tbs, p, C) == Round(el, out, Group(Fpv(p, C), C), tbs, Fpv(p, C), p)

(* probability that a uniformly random order of T is o, given it must be descending in sc *)
RECURSIVE GroupFacts(_,_)
GroupFacts(sc, D) == IF D = {} THEN 1 ELSE
   LET top == {c \in D : \A d \in D : RLe(sc[d], sc[c])} IN Fact(Cardinality(top)) * GroupFacts(sc, D \ top)
TieProb(T, tb, sc) == IF tb = "random" THEN <<1, Fact(Cardinality(T))>> ELSE <<1, GroupFacts(sc, T)>>

\* ------------------------------------------------------------------ transfers (module Transfers, at this count's threshold)
TransferValue(t) == TransferValueQ(t, thr)
FracOne(p, w, t) == FracOneQ(p, w, t, thr)
RECURSIVE FracAll(_,_,_)
FracAll(p, W, sc) == IF W = {} THEN p ELSE LET w == CHOOSE x \in W : TRUE IN FracAll(FracOne(p, w, sc[w]), W \ {w}, sc)
RandPicks(p, w, sc) == RandPicksQ(p, w, sc[w], thr)
(* set of <<bag, probability>> after transferring the piles of all winners in W *)
RECURSIVE RandAll(_,_,_,_)
RandAll(p, W, sc, pr) == IF W = {} THEN {<<p, pr>>} ELSE LET w == CHOOSE x \in W : TRUE IN
     UNION { RandAll(ApplyPick(p, w, f), W \ {w}, sc, RMul(pr, PickProb(p, w, f))) : f \in RandPicks(p, w, sc) }
AfterTransfer(p, W, sc) ==
  IF cfg.xfer = "fractional" THEN {<<RemoveCands(Positive(FracAll(p, W, sc)), W), R(1)>>}
  ELSE IF cfg.xfer = "full"  THEN {<<RemoveCands(p, W), R(1)>>}
  ELSE LET outs == RandAll(p, W, sc, R(1))
           bags == {RemoveCands(o[1], W) : o \in outs}
       IN {<<b, FoldSet(LAMBDA o, acc : RAdd(o[2], acc), R(0), {o \in outs : RemoveCands(o[1], W) = b})>> : b \in bags}

\* ------------------------------------------------------------------ STV family
STVStage == status = "running" /\ stage = "main" /\ cfg.rule \in STVFamily \cup {"Alaska"}
Above == {c \in cur : RLe(R(thr), LastR.scores[c])}
(* the standing candidates grouped by current tally, high to low.  In a plain STV count this *is* the last record's *)
(* `remaining`; after Alaska's cut the STV stage starts from the tallies of the reduced profile, not from the cut's  *)
(* tie-broken order.                                                                                                *)
Standing == Group(LastR.scores, cur)
AfterElect == IF Cardinality(ElectedSoFar') = Seats THEN "finished"
              ELSE IF Cardinality(ElectedSoFar') > Seats THEN "overelected" ELSE "running"

ElectSimul ==
  /\ STVStage /\ cfg.simul /\ Above # {}
  /\ LET el == SelectSeq(Standing, LAMBDA g : g \subseteq Above)
         W  == UNION Range(el)
     IN \E o \in AfterTransfer(prof, W, LastR.scores) :
          /\ prof' = o[1] /\ cur' = cur \ W /\ plabel' = o[2]
          /\ rounds' = Append(rounds, TallyRound(el, <<>>, {}, o[1], cur \ W))
  /\ status' = AfterElect
  /\ UNCHANGED <<vorder, cfg, cands, prof0, sprof0, scands, thr, stage>>

ElectOne ==
  /\ STVStage /\ ~cfg.simul /\ Above # {}
  /\ LET T == Standing[1] IN
       IF Cardinality(T) > 1 /\ cfg.tb = "none"
       THEN /\ status' = "ValueError" /\ plabel' = R(1)
            /\ UNCHANGED <<vorder, cfg, cands, prof0, sprof0, scands, prof, cur, thr, rounds, stage>>
       ELSE LET sc == TbScore(cfg.tb, prof, cur) IN
            \E ord \in Resolutions(T, cfg.tb, sc) :
            /\ LET w   == ord[1]
                   tbs == IF Cardinality(T) > 1 THEN {<<T, Singles(ord)>>} ELSE {}
               IN \E o \in AfterTransfer(prof, {w}, LastR.scores) :
                    /\ prof' = o[1] /\ cur' = cur \ {w}
                    /\ plabel' = RMul(o[2], IF Cardinality(T) > 1 THEN TieProb(T, cfg.tb, sc) ELSE R(1))
                    /\ rounds' = Append(rounds, TallyRound(<<{w}>>, <<>>, tbs, o[1], cur \ {w}))
            /\ status' = AfterElect
            /\ UNCHANGED <<vorder, cfg, cands, prof0, sprof0, scands, thr, stage>>

DefaultElect ==
  /\ STVStage /\ Above = {} /\ Cardinality(cur) = SeatsLeft
  /\ prof' = NoBallots /\ cur' = {} /\ plabel' = R(1)
  /\ rounds' = Append(rounds, Round(Standing, <<>>, <<>>, {}, <<>>, NoBallots))
  /\ status' = AfterElect
  /\ UNCHANGED <<vorder, cfg, cands, prof0, sprof0, scands, thr, stage>>

Eliminate ==
  /\ STVStage /\ Above = {} /\ Cardinality(cur) # SeatsLeft
  /\ cur # {}
  /\ LET L  == Standing[Len(Standing)]
         sc == Fpv(sprof0, scands)                 \* ties: lowest *initial* first-place tally, then arbitrary
     IN \E ord \in Resolutions(L, "first_place", sc) :
        LET c   == ord[Len(ord)]
            tbs == IF Cardinality(L) > 1 THEN {<<L, Singles(ord)>>} ELSE {}
            p   == RemoveCands(prof, {c})
        IN /\ prof' = p /\ cur' = cur \ {c}
           /\ plabel' = IF Cardinality(L) > 1 THEN TieProb(L, "first_place", sc) ELSE R(1)
           /\ rounds' = Append(rounds, TallyRound(<<>>, <<{c}>>, tbs, p, cur \ {c}))
  /\ status' = "running"
  /\ UNCHANGED <<vorder, cfg, cands, prof0, sprof0, scands, thr, stage>>

\* ------------------------------------------------------------------ one-shot positional rules
OneShotElect ==
  /\ status = "running" /\ cfg.rule \in OneShot
  /\ \E o \in ElectTop(LastR.remaining, cfg.m, cfg.tb, TbScore(cfg.tb, prof, cur)) :
       IF o.err
       THEN /\ status' = "ValueError" /\ plabel' = R(1)
            /\ UNCHANGED <<vorder, cfg, cands, prof0, sprof0, scands, prof, cur, thr, rounds, stage>>
       ELSE LET W == UNION Range(o.elected)
                p == RemoveCands(prof, W)
            IN /\ prof' = p /\ cur' = cur \ W
               /\ plabel' = IF o.tbs = {} THEN R(1)
                            ELSE LET T == (CHOOSE t \in o.tbs : TRUE)[1] IN TieProb(T, cfg.tb, TbScore(cfg.tb, prof, cur))
               /\ rounds' = Append(rounds, Round(o.elected, <<>>, o.remaining, o.tbs, SF(p, cur \ W), p))
               /\ status' = "finished"
               /\ UNCHANGED <<vorder, cfg, cands, prof0, sprof0, scands, thr, stage>>

\* ------------------------------------------------------------------ pairwise rules
TieredElect ==
  /\ status = "running" /\ cfg.rule \in Tiered
  /\ LET t == Tiers(prof, cur) IN
     IF cfg.rule = "DominatingSets"
     THEN LET p == RemoveCands(prof, t[1]) IN
          /\ prof' = p /\ cur' = cur \ t[1] /\ plabel' = R(1)
          /\ rounds' = Append(rounds, Round(<<t[1]>>, <<>>, Tail(t), {}, <<>>, p))
          /\ status' = "finished"
     ELSE \E o \in ElectTop(t, cfg.m, "borda", Borda(prof, cur)) :
          IF o.err          \* only for a seat count outside 1..number of candidates
          THEN /\ status' = "ValueError" /\ plabel' = R(1) /\ UNCHANGED <<prof, cur, rounds>>
          ELSE
          LET W == UNION Range(o.elected)
              p == RemoveCands(prof, W)
          IN /\ prof' = p /\ cur' = cur \ W
             /\ plabel' = IF o.tbs = {} THEN R(1)
                          ELSE LET T == (CHOOSE x \in o.tbs : TRUE)[1] IN TieProb(T, "borda", Borda(prof, cur))
             /\ rounds' = Append(rounds, Round(o.elected, <<>>, o.remaining, o.tbs, Borda(p, cur \ W), p))
             /\ status' = "finished"
  /\ UNCHANGED <<vorder, cfg, cands, prof0, sprof0, scands, thr, stage>>

\* ------------------------------------------------------------------ composites: the plurality cut
CutSize == IF cfg.rule = "TopTwo" THEN 2 ELSE cfg.m1
Cut ==
  /\ status = "running" /\ stage = "cut" /\ cfg.rule \in Composite
  /\ IF CutSize > Cardinality(cur)
     THEN /\ status' = "ValueError" /\ plabel' = R(1)
          /\ UNCHANGED <<vorder, cfg, cands, prof0, sprof0, scands, prof, cur, thr, rounds, stage>>
     ELSE \E o \in ElectTop(LastR.remaining, CutSize, cfg.tb, TbScore(cfg.tb, prof, cur)) :
       IF o.err
       THEN /\ status' = "ValueError" /\ plabel' = R(1)
            /\ UNCHANGED <<vorder, cfg, cands, prof0, sprof0, scands, prof, cur, thr, rounds, stage>>
       ELSE LET keep == UNION Range(o.elected)
                p    == RemoveCands(prof, cur \ keep)
            IN /\ prof' = p /\ cur' = keep /\ sprof0' = p /\ scands' = keep
               /\ plabel' = IF o.tbs = {} THEN R(1)
                            ELSE LET T == (CHOOSE t \in o.tbs : TRUE)[1] IN TieProb(T, cfg.tb, TbScore(cfg.tb, prof, cur))
               /\ thr' = IF cfg.rule = "Alaska" THEN Threshold(Total(p), cfg.m, cfg.quota) ELSE thr
               /\ rounds' = Append(rounds, Round(<<>>, o.remaining, o.elected, o.tbs, Fpv(p, keep), p))
               /\ stage' = "main" /\ status' = "running"
               /\ UNCHANGED <<vorder, cfg, cands, prof0>>
(* TopTwo runoff: Plurality(1) on the reduced profile *)
Runoff ==
  /\ status = "running" /\ stage = "main" /\ cfg.rule = "TopTwo"
  /\ \E o \in ElectTop(Group(Fpv(prof, cur), cur), 1, cfg.tb, TbScore(cfg.tb, prof, cur)) :
       IF o.err
       THEN /\ status' = "ValueError" /\ plabel' = R(1)
            /\ UNCHANGED <<vorder, cfg, cands, prof0, sprof0, scands, prof, cur, thr, rounds, stage>>
       ELSE LET W == UNION Range(o.elected)
                p == RemoveCands(prof, W)
            IN /\ prof' = p /\ cur' = cur \ W
               /\ plabel' = IF o.tbs = {} THEN R(1)
                            ELSE LET T == (CHOOSE t \in o.tbs : TRUE)[1] IN TieProb(T, cfg.tb, TbScore(cfg.tb, prof, cur))
               /\ rounds' = Append(rounds, Round(o.elected, <<>>, o.remaining, o.tbs, Fpv(p, cur \ W), p))
               /\ status' = "finished"
               /\ UNCHANGED <<vorder, cfg, cands, prof0, sprof0, scands, thr, stage>>

\* ------------------------------------------------------------------ randomised rules
(* RandomDictator draw: a ballot with probability weight/total; a tied first place is resolved uniformly *)
DictatorOutcomes(p) ==
  UNION { IF Cardinality(r[1]) = 1 THEN {<<First(r), {}>>}
          ELSE {<<o[1], {<<r[1], Singles(o)>>}>> : o \in Orders(r[1])} : r \in DOMAIN p}
DictatorProb(p, w, tbs) ==
  LET T == IF tbs = {} THEN {w} ELSE (CHOOSE t \in tbs : TRUE)[1]
      share == RDiv(SumRat(p, {r \in DOMAIN p : r[1] = T}), Total(p))
  IN RMul(share, <<1, Fact(Cardinality(T))>>)
SquaresProb(sc, C, w) == RDiv(RMul(sc[w], sc[w]), SumRat([c \in C |-> RMul(sc[c], sc[c])], C))
DictatorRound(w, tbs, pr) ==
  LET p == RemoveCands(prof, {w}) IN
  /\ prof' = p /\ cur' = cur \ {w} /\ plabel' = pr
  /\ rounds' = Append(rounds, TallyRound(<<{w}>>, <<>>, tbs, p, cur \ {w}))
  /\ status' = IF Cardinality(ElectedSoFar') >= cfg.m THEN "finished" ELSE "running"
  /\ UNCHANGED <<vorder, cfg, cands, prof0, sprof0, scands, thr, stage>>
DictatorDraw ==
  /\ status = "running" /\ cfg.rule = "RandomDictator" /\ DOMAIN prof # {}
  /\ \E o \in DictatorOutcomes(prof) : DictatorRound(o[1], o[2], DictatorProb(prof, o[1], o[2]))
(* all ballots exhausted before the seats are filled: any remaining candidate, uniformly (see DESIGN, finding KF-C01-RD) *)
DictatorExhausted ==
  /\ status = "running" /\ cfg.rule \in Dictators /\ DOMAIN prof = {} /\ Cardinality(cur) > 1
  /\ \E w \in cur : DictatorRound(w, {}, <<1, Cardinality(cur)>>)
BoostedDraw ==
  /\ status = "running" /\ cfg.rule = "BoostedRandomDictator" /\ Cardinality(cur) > 1 /\ DOMAIN prof # {}
  /\ LET c    == Cardinality(cur)
         q    == <<1, c - 1>>                                   \* probability of the proportional-to-squares branch
         outs == DictatorOutcomes(prof) \cup {<<w, {}>> : w \in {x \in cur : LastR.scores[x][1] > 0}}
     IN \E o \in outs :
          LET pd == IF o \in DictatorOutcomes(prof) THEN RMul(RSub(R(1), q), DictatorProb(prof, o[1], o[2])) ELSE R(0)
              ps == IF o[2] = {} /\ LastR.scores[o[1]][1] > 0 THEN RMul(q, SquaresProb(LastR.scores, cur, o[1])) ELSE R(0)
          IN /\ RLt(R(0), RAdd(pd, ps))
             /\ DictatorRound(o[1], o[2], RAdd(pd, ps))
LastCandidate ==
  /\ status = "running" /\ cfg.rule \in Dictators /\ Cardinality(cur) = 1
  /\ (cfg.rule = "RandomDictator" => DOMAIN prof = {})
  /\ DictatorRound(CHOOSE w \in cur : TRUE, {}, R(1))

(* PluralityVeto as implemented (its documentation fixes little; the model follows the code and names what it does):              *)
(* the voters -- unit ballots -- are asked in the stored order; a voter whose ballot still ranks somebody vetoes the last candidate *)
(* of the ballot (a tied last position is resolved by the requested tiebreak and the *last* such resolution of the round is        *)
(* recorded); a veto takes one point off the candidate's current first-place tally; the first candidate to reach zero is           *)
(* eliminated and the round ends; in the first round every candidate without first-place votes goes out as well; the next round    *)
(* starts with the voter after the one whose veto ended this round, and tallies are recomputed from the reduced ballots.           *)
RECURSIVE VetoWalk(_,_,_,_)
VetoWalk(order, i, sc, acc) ==
  IF i > Len(order) THEN {[E |-> acc.E, idx |-> Len(order), tbs |-> acc.tbs]}
  ELSE IF order[i] = <<>> THEN VetoWalk(order, i + 1, sc, acc)
  ELSE LET T == order[i][Len(order[i])] IN
       UNION { LET lp   == o[Len(o)]
                   tbs2 == IF Cardinality(T) > 1 THEN {<<T, Singles(o)>>} ELSE acc.tbs
                   sc2  == [sc EXCEPT ![lp] = RSub(@, R(1))]
               IN IF RLe(sc2[lp], R(0)) THEN {[E |-> acc.E \cup {lp}, idx |-> i, tbs |-> tbs2]}
                  ELSE VetoWalk(order, i + 1, sc2, [E |-> acc.E, tbs |-> tbs2])
             : o \in Resolutions(T, IF cfg.tb = "none" THEN "random" ELSE cfg.tb, TbScore(cfg.tb, prof, cur)) }
RotateStrip(order, idx, E) == [j \in 1..Len(order) |-> Strip(order[((idx + j - 1) % Len(order)) + 1], E)]
VetoEliminate ==
  /\ status = "running" /\ cfg.rule = "PluralityVeto" /\ Cardinality(cur) > cfg.m
  /\ LET zero == IF Len(rounds) = 1 THEN {c \in DOMAIN LastR.scores : RLe(LastR.scores[c], R(0))} ELSE {}
     IN \E w \in VetoWalk(vorder, 1, LastR.scores, [E |-> zero, tbs |-> {}]) :
          /\ w.E # {} /\ Cardinality(cur \ w.E) >= cfg.m   \* somebody goes out, never below the seats (violated by the code: KF_veto_below)
          /\ LET p == RemoveCands(prof, w.E)  C == cur \ w.E IN
             /\ prof' = p /\ cur' = cur \ w.E /\ plabel' = R(0)
             /\ vorder' = IF Len(vorder) = 0 THEN <<>> ELSE RotateStrip(vorder, w.idx, w.E)
             /\ rounds' = Append(rounds, Round(<<>>, IF w.E = {} THEN <<>> ELSE <<w.E>>, Group(Fpv(p, C), C), w.tbs, Fpv(p, C), p))
  /\ status' = "running"
  /\ UNCHANGED <<cfg, cands, prof0, sprof0, scands, thr, stage>>
(* When every veto walk would leave fewer than m candidates (e.g. more than n - m candidates without first-place votes in   *)
(* round 1) the implemented rule has no admissible step (recorded finding KF_veto_below: the code eliminates anyway and never *)
(* finishes).  The specification requires *some* elimination that keeps m candidates, so that C01 (exactly m winners,         *)
(* termination) is a property of the design; which one is left open.                                                          *)
VetoShort ==
  /\ status = "running" /\ cfg.rule = "PluralityVeto" /\ Cardinality(cur) > cfg.m
  /\ LET zero == IF Len(rounds) = 1 THEN {c \in DOMAIN LastR.scores : RLe(LastR.scores[c], R(0))} ELSE {}
         walks == VetoWalk(vorder, 1, LastR.scores, [E |-> zero, tbs |-> {}])
     IN /\ \A w \in walks : w.E = {} \/ Cardinality(cur \ w.E) < cfg.m
        /\ \E w \in walks : \E E \in (SUBSET cur) \ {{}} :
             /\ (w.E # {} => E \subseteq w.E)
             /\ Cardinality(cur \ E) >= cfg.m
             /\ LET p == RemoveCands(prof, E)  C == CandsCast(p) IN
                /\ prof' = p /\ cur' = cur \ E /\ plabel' = R(0)
                /\ vorder' = IF Len(vorder) = 0 THEN <<>> ELSE RotateStrip(vorder, w.idx, E)
                /\ rounds' = Append(rounds, Round(<<>>, <<E>>, Group(Fpv(p, cur \ E), cur \ E), w.tbs, Fpv(p, cur \ E), p))
  /\ status' = "running"
  /\ UNCHANGED <<cfg, cands, prof0, sprof0, scands, thr, stage>>
VetoElect ==
  /\ status = "running" /\ cfg.rule = "PluralityVeto" /\ Cardinality(cur) = cfg.m
  /\ prof' = NoBallots /\ cur' = {} /\ plabel' = R(1)
  /\ rounds' = Append(rounds, Round(LastR.remaining, <<>>, <<>>, {}, <<>>, NoBallots))
  /\ status' = "finished"
  /\ UNCHANGED <<vorder, cfg, cands, prof0, sprof0, scands, thr, stage>>

Next == \/ ElectSimul \/ ElectOne \/ DefaultElect \/ Eliminate
        \/ OneShotElect \/ TieredElect \/ Cut \/ Runoff
        \/ DictatorDraw \/ DictatorExhausted \/ BoostedDraw \/ LastCandidate
        \/ VetoEliminate \/ VetoShort \/ VetoElect

(* start of a count: configuration c on bag p over candidate set C -- the value of every variable *)
StartRec(c, p, C, vo) ==
  [vorder |-> vo, cfg |-> c, cands |-> C, prof0 |-> p, sprof0 |-> p, scands |-> C, prof |-> p, cur |-> C,
   thr |-> IF c.rule \in STVFamily THEN Threshold(Total(p), IF c.rule = "IRV" THEN 1 ELSE c.m, c.quota) ELSE 0,
   stage |-> IF c.rule \in Composite THEN "cut" ELSE "main",
   status |-> "running", plabel |-> R(1),
   rounds |-> << IF c.rule = "DominatingSets" THEN Round(<<>>, <<>>, <<C>>, {}, <<>>, p)
                 ELSE LET sc == (CASE c.rule = "Borda" -> Positional(p, C, c.vec)
                                   [] c.rule = "CondoBorda" -> Borda(p, C)
                                   [] OTHER -> Fpv(p, C))
                      IN Round(<<>>, <<>>, Group(sc, C), {}, sc, p) >>]
StartInit(c, p, C, vo) == LET s == StartRec(c, p, C, vo) IN
  /\ cfg = s.cfg /\ cands = s.cands /\ prof0 = s.prof0 /\ sprof0 = s.sprof0 /\ scands = s.scands /\ prof = s.prof
  /\ cur = s.cur /\ thr = s.thr /\ stage = s.stage /\ status = s.status /\ plabel = s.plabel /\ rounds = s.rounds /\ vorder = s.vorder
StartNext(c, p, C, vo) == LET s == StartRec(c, p, C, vo) IN
  /\ cfg' = s.cfg /\ cands' = s.cands /\ prof0' = s.prof0 /\ sprof0' = s.sprof0 /\ scands' = s.scands /\ prof' = s.prof
  /\ cur' = s.cur /\ thr' = s.thr /\ stage' = s.stage /\ status' = s.status /\ plabel' = s.plabel /\ rounds' = s.rounds /\ vorder' = s.vorder

\* ------------------------------------------------------------------ probability labels (C17, C10, C03)
SumOver(S, F(_)) == FoldSet(LAMBDA x, acc : RAdd(F(x), acc), R(0), S)
(* the labels of all outcomes of the random draw enabled in the current state sum to one *)
ProbSum ==
  /\ (status = "running" /\ cfg.rule = "RandomDictator" /\ DOMAIN prof # {})
        => SumOver(DictatorOutcomes(prof), LAMBDA o : DictatorProb(prof, o[1], o[2])) = R(1)
  /\ (status = "running" /\ cfg.rule = "BoostedRandomDictator" /\ Cardinality(cur) > 1 /\ DOMAIN prof # {})
        => LET q == <<1, Cardinality(cur) - 1>> IN
           RAdd(RMul(RSub(R(1), q), SumOver(DictatorOutcomes(prof), LAMBDA o : DictatorProb(prof, o[1], o[2]))),
                RMul(q, SumOver({x \in cur : LastR.scores[x][1] > 0}, LAMBDA w : SquaresProb(LastR.scores, cur, w)))) = R(1)
  /\ (STVStage /\ Above # {} /\ cfg.xfer = "random" /\ cfg.simul)
        => LET W == UNION Range(SelectSeq(Standing, LAMBDA g : g \subseteq Above)) IN
           SumOver(AfterTransfer(prof, W, LastR.scores), LAMBDA o : o[2]) = R(1)
  /\ (STVStage /\ Above = {} /\ Cardinality(cur) # SeatsLeft /\ cur # {})
        => LET L == Standing[Len(Standing)]  sc == Fpv(sprof0, scands) IN
           RMul(R(Cardinality(Resolutions(L, "first_place", sc))), TieProb(L, "first_place", sc)) = R(1)
  /\ \A tb \in {"random", "borda", "first_place"} : \A T \in (SUBSET cur) \ {{}} :
        (Cardinality(T) <= 3) => RMul(R(Cardinality(Resolutions(T, tb, TbScore(tb, prof, cur)))), TieProb(T, tb, TbScore(tb, prof, cur))) = R(1)
(* C10: a step is random (label below one) only if the round it records carries a tiebreak -- except the *)
(* rules / options that are random by request (random transfer, the dictators, PluralityVeto's voter order)  *)
RandomByRequest == cfg.xfer = "random" \/ cfg.rule \in Dictators \cup {"PluralityVeto"}
RandomOnlyWithTiebreak == [][(status \in {"running"} /\ plabel' # R(1) /\ ~RandomByRequest /\ Len(rounds') > Len(rounds))
                               => rounds'[Len(rounds')].tiebreaks # {}]_vars

\* ------------------------------------------------------------------ recorded findings as named predicates
(* Each is a predicate on the state *before* the step the implementation gets wrong; known_findings.json refers *)
(* to them by name (see DESIGN.md section 6).  They never weaken a property: they only label a rejection.        *)
KF_thr0 == cfg.rule \in STVFamily \cup {"Alaska"} /\ stage = "main" /\ thr = 0 /\ status = "running"
KF_shortpile == /\ STVStage /\ cfg.xfer = "random"
                /\ \E w \in Above : SumInt([r \in Transferable(prof, w) |-> RFloor(prof[r])], Transferable(prof, w)) < RFloor(LastR.scores[w]) - thr
KF_overelect == status = "overelected" \/ (STVStage /\ cfg.simul /\ Cardinality(Above) > SeatsLeft)
KF_dictator_exhausted == cfg.rule \in Dictators /\ DOMAIN prof = {} /\ status = "running"
KF_boosted_last == cfg.rule = "BoostedRandomDictator" /\ Cardinality(cur) = 1 /\ status = "running"
KF_tiered_noballots == cfg.rule \in Tiered /\ DOMAIN prof = {} /\ status = "running"
KF_noballots == DOMAIN prof0 = {}
KF_veto_under == cfg.rule = "PluralityVeto" /\ Cardinality(cur) < cfg.m /\ status = "running"
(* Alaska's constructor replays its STV stage (get_profile) and the replay re-draws random tiebreaks / random transfers *)
KF_alaska_replay == cfg.rule = "Alaska" /\ Len(rounds) >= 3 /\ (cfg.xfer = "random" \/ \E i \in 3..Len(rounds) : rounds[i].tiebreaks # {})
KFlags == {n \in {"thr0", "shortpile", "overelect", "dictator_exhausted", "boosted_last", "tiered_noballots", "alaska_replay", "noballots", "veto_under"} :
             CASE n = "thr0" -> KF_thr0 [] n = "shortpile" -> KF_shortpile [] n = "overelect" -> KF_overelect
               [] n = "dictator_exhausted" -> KF_dictator_exhausted [] n = "boosted_last" -> KF_boosted_last
               [] n = "tiered_noballots" -> KF_tiered_noballots [] n = "alaska_replay" -> KF_alaska_replay
               [] n = "noballots" -> KF_noballots [] n = "veto_under" -> KF_veto_under}

\* ------------------------------------------------------------------ properties
Started == status \in {"running", "finished", "ValueError", "overelected"}
RemainingOf(i) == UNION Range(rounds[i].remaining)
ElectedUpTo(i)    == UNION {UNION Range(rounds[j].elected)    : j \in 1..i}
EliminatedUpTo(i) == UNION {UNION Range(rounds[j].eliminated) : j \in 1..i}
(* C01: at every recorded round the three groups list every candidate exactly once *)
PartitionAt(i) ==
  /\ ElectedUpTo(i) \cap EliminatedUpTo(i) = {} /\ ElectedUpTo(i) \cap RemainingOf(i) = {} /\ EliminatedUpTo(i) \cap RemainingOf(i) = {}
  /\ ElectedUpTo(i) \cup EliminatedUpTo(i) \cup RemainingOf(i) = cands
  /\ \A a, b \in 1..Len(rounds[i].remaining) : a # b => rounds[i].remaining[a] \cap rounds[i].remaining[b] = {}
Partition == \A i \in 1..Len(rounds) : PartitionAt(i)
PartitionLast == PartitionAt(Len(rounds))
(* C01: elected / eliminated status is never lost (partition + this = monotone status) *)
MonotoneStatus == [][ElectedSoFar \subseteq ElectedSoFar' /\ EliminatedSoFar \subseteq EliminatedSoFar']_vars
ExactlySeats == status = "finished" => Cardinality(ElectedSoFar) = Seats
NeverOverElected == status # "overelected"
(* C01: the variant strictly decreases on every running step, so every count terminates *)
Variant == Cardinality(cur) + (IF stage = "cut" THEN 1 ELSE 0)
Progress == [][status = "running" /\ status' = "running" => Variant' < Variant]_vars
BoundedRounds == Len(rounds) <= Cardinality(cands) + 2
(* C01: ValueError only for an unbroken tie that straddles the last seat being filled (or a cut larger than the field) *)
ErrorDiscipline == status = "ValueError" => cfg.tb = "none" \/ (cfg.rule \in Composite /\ CutSize > Cardinality(cur))
                                             \/ cfg.m < 1 \/ cfg.m > Cardinality(cands)
(* C02 *)
ThresholdFixed == [][stage = "main" /\ stage' = "main" => thr' = thr]_vars
(* C03: totals never increase; an election round consumes at least the threshold per quota-elected candidate; *)
(* an elimination loses exactly the weight of the ballots left with no surviving choice                        *)
ConservationAt(i) ==
  LET a == rounds[i-1].bag  b == rounds[i].bag
      el == UNION Range(rounds[i].elected)  out == UNION Range(rounds[i].eliminated) IN
  /\ RLe(Total(b), Total(a))
  /\ (cfg.rule \in STVFamily \/ (cfg.rule = "Alaska" /\ i >= 3)) =>
       /\ (el = {} /\ out # {}) => Total(b) = RSub(Total(a), Exhausted(a, out))
       /\ (el # {} /\ cfg.xfer # "full" /\ \A c \in el : c \in DOMAIN rounds[i-1].scores /\ RLe(R(thr), rounds[i-1].scores[c]))
             => RLe(R(thr * Cardinality(el)), RSub(Total(a), Total(b)))
ConservationAll == \A i \in 2..Len(rounds) : ConservationAt(i)
ConservationLast == Len(rounds) >= 2 => ConservationAt(Len(rounds))
(* C07: Droop proportionality for solid coalitions, read off the initial profile *)
Solid(S) == SumRat(prof0, {r \in DOMAIN prof0 : Len(r) >= Cardinality(S) /\ UNION {r[i] : i \in 1..Cardinality(S)} = S})
Min2(a, b) == IF a < b THEN a ELSE b
DPCApplies == cfg.rule \in {"STV", "IRV"} /\ cfg.quota = "droop" /\ cfg.xfer \in {"fractional", "random"}
(* the quota of the statement, computed from the initial profile (not the implementation's stored threshold) *)
DroopQuota == Threshold(Total(prof0), Seats, "droop")
DPC == (status = "finished" /\ DPCApplies) => \A S \in SUBSET cands \ {{}} :
   LET k == RFloor(RDiv(Solid(S), R(DroopQuota))) IN Cardinality(S \cap ElectedSoFar) >= Min2(Min2(k, Cardinality(S)), Seats)
(* C10: every recorded tiebreak is a strict order of exactly the tied set, the tied candidates were equal on *)
(* the deciding tally, and the round's groups obey the order                                                *)
TiebreaksWellFormed == \A i \in {Len(rounds)} : \A t \in rounds[i].tiebreaks :
   /\ Cardinality(t[1]) > 1
   /\ UNION Range(t[2]) = t[1] /\ Len(t[2]) = Cardinality(t[1]) /\ \A j \in 1..Len(t[2]) : Cardinality(t[2][j]) = 1
=============================================================================
