----------------------------- MODULE GenDistTrace -----------------------------
(* Call-level trace validation for the ballot generators (C16).                                      *)
(* One trace = one generator (model + exact small rational parameters of ONE voter bloc) together     *)
(* with the EXACT law of what the real code returned for that bloc, obtained by enumerating every     *)
(* outcome of every random draw of the code (harness/rng.py):                                         *)
(*     law    = << <<outcome, n, d>>, ... >>   P(outcome) = n / d;  outcome = the bloc's profile as a bag       *)
(*              << <<ballot, count>>, ... >>,  ballot = the sequence of its supported candidates       *)
(*              (name-Cumulative: << <<candidate, points>>, ... >>)                                   *)
(*     kernel = << <<state, << <<next state, <<n, d>>>>, ... >> >>, ... >>   (MCMC samplers)           *)
(* The specification computes the probability the model of GenDist.tla gives to every logged outcome  *)
(* and compares exactly; the logged law must sum to one, so an outcome the code can never produce     *)
(* although the model can is noticed as well.  Verdict: the first failing clause, named after the      *)
(* part of the statement it belongs to.                                                                *)
EXTENDS GenDist, Json, IOUtils
VARIABLES tid, done
Traces == ndJsonDeserialize(IOEnv.TRACE_FILE)
T == Traces[tid]
Write(rec) == Serialize(ToJson(rec) \o "\n", IOEnv.VERDICT_FILE,
                        [format |-> "TXT", charset |-> "UTF-8", openOptions |-> <<"WRITE", "CREATE", "APPEND">>]).exitValue = 0

(* ---- JSON -> parameters ---- *)
PairsFn(js, V(_)) == LET S == ToSet(js) IN [k \in {x[1] : x \in S} |-> V((CHOOSE x \in S : x[1] = k)[2])]
WOf(js) == PairsFn(js, Rat2)
Iv   == PairsFn(T.iv, WOf)
Coh  == PairsFn(T.coh, Rat2)
Own  == T.own
Opp  == T.opp
Cown == Coh[Own]
Hist == PairsFn(T.hist, LAMBDA n : n)
Lab  == T.labels[1]
OLab == T.labels[2]
Rep(x, n) == [i \in 1..n |-> x]
RECURSIVE FlatOf(_)
FlatOf(o) == IF o = <<>> THEN <<>> ELSE Rep(Head(o)[1], Head(o)[2]) \o FlatOf(Tail(o))
Law == [i \in DOMAIN T.law |-> [flat |-> FlatOf(T.law[i][1]), p |-> Norm(T.law[i][2], T.law[i][3])]]
(* the logged law sums to one: decided here over the common denominator T.den when that fits TLC's integers, otherwise *)
(* (T.den = 0) the harness' exact sum is taken (it is a fact about the harness' enumeration, not about the code)      *)
LawComplete == IF T.den > 0 THEN FoldSet(LAMBDA i, acc : T.law[i][2] * (T.den \div T.law[i][3]) + acc, 0, DOMAIN T.law) = T.den ELSE T.complete
BagKey(s) == [x \in SeqSet(s) |-> CountIn(s, x)]                   \* a sequence as a bag
Cands == AllCands(Iv)

(* ---- generic comparison: every logged outcome has exactly the probability SeqP gives to its bag ---- *)
(* (tables are forced with TLCEval once per trace: TLC re-evaluates operator applications every time)  *)
Ballots == UNION {SeqSet(Law[i].flat) : i \in DOMAIN Law}
Tab(P(_)) == TLCEval([b \in Ballots |-> P(b)])                      \* per-ballot probabilities of the ballots that occur
Agrees(SeqP(_)) == \A i \in DOMAIN Law : BagP(Law[i].flat, SeqP) = Law[i].p
AgreesIidT(pt) == Agrees(LAMBDA s : IndepP(s, LAMBDA j, x : pt[x]))
(* the same after mapping every ballot through F (marginal law of the bag of images) *)
MarginalAgrees(F(_), SeqP(_)) ==
  LET img == TLCEval([i \in DOMAIN Law |-> [j \in DOMAIN Law[i].flat |-> F(Law[i].flat[j])]])
      key == TLCEval([i \in DOMAIN Law |-> BagKey(img[i])])
  IN \A k \in {key[i] : i \in DOMAIN Law} :
        LET I == {i \in DOMAIN Law : key[i] = k}  i0 == CHOOSE i \in I : TRUE
        IN RSumSet(I, LAMBDA i : Law[i].p) = BagP(img[i0], SeqP)
TypesIn == {TypeOf(b, Iv) : b \in Ballots}
TTab(P(_)) == TLCEval([t \in TypesIn |-> P(t)])
MarginalAgreesIidT(F(_), tt) == MarginalAgrees(F, LAMBDA s : IndepP(s, LAMBDA j, x : tt[x]))

RankingsOK == \A i \in DOMAIN Law : \A j \in DOMAIN Law[i].flat :
                 SeqSet(Law[i].flat[j]) \subseteq Cands       \* (a repeated candidate has probability 0 under every law)
TypeOfB(b) == TypeOf(b, Iv)

(* ---- AlternatingCrossover / CambridgeSampler: the split into bloc-first and opposing-first ballots ---- *)
Props == [i \in DOMAIN T.props |-> Rat2(T.props[i])]
Splits == {<<a[T.tix[1]], a[T.tix[2]]>> : a \in HH(Props, T.ntot)}          \* allowed (bloc-first, opposing-first) numbers
KindOf(b) == IF b # <<>> /\ b[1] \in DOMAIN Iv[Own] THEN "bloc" ELSE "cross"
SplitOf(flat) == <<Cardinality({j \in DOMAIN flat : KindOf(flat[j]) = "bloc"}), Cardinality({j \in DOMAIN flat : KindOf(flat[j]) = "cross"})>>
SplitOK == \A i \in DOMAIN Law : SplitOf(Law[i].flat) \in Splits
(* the order in which the code lays out the two kinds does not matter for a bag: bloc-first ballots first *)
KindAt(flat, j) == IF j <= SplitOf(flat)[1] THEN "bloc" ELSE "cross"
KindSeqP(s, ptB, ptC) == LET nb == SplitOf(s)[1] IN IndepP(s, LAMBDA j, b : IF j <= nb THEN ptB[b] ELSE ptC[b])
ACShapeOK == \A i \in DOMAIN Law : \A j \in DOMAIN Law[i].flat :
                LET b == Law[i].flat[j] IN b = ACShape(KindOf(b), RestrictTo(b, DOMAIN Iv[Own]), RestrictTo(b, DOMAIN Iv[Opp]))
(* slate pattern law of a Cambridge ballot *)
CamW2 == CamW(Iv, Own, Opp, Cown)
CamTypeP(kind, t) ==
  LET no == Cardinality(Supp(CamW2) \cap DOMAIN Iv[Own])  np == Cardinality(Supp(CamW2) \cap DOMAIN Iv[Opp])
      ts == CamTypes(Hist, IF kind = "bloc" THEN Lab ELSE OLab)
      tot == FoldSet(LAMBDA x, acc : Hist[x] + acc, 0, ts)
  IN IF tot = 0 THEN R(0) ELSE RSumSet({x \in ts : FillFrom(x, Lab, Rep(Own, no), Rep(Opp, np)) = t}, LAMBDA x : Norm(Hist[x], tot))
CamKindOfT(t) == IF t # <<>> /\ t[1] = Own THEN "bloc" ELSE "cross"
CamTypeSeqP(s, ttB, ttC) == LET nb == Cardinality({j \in DOMAIN s : CamKindOfT(s[j]) = "bloc"}) IN
                            IndepP(s, LAMBDA j, t : IF j <= nb THEN ttB[t] ELSE ttC[t])

(* ---- MCMC: the kernel extracted from the code ---- *)
KRows == ToSet(T.kernel)
KStates == {x[1] : x \in KRows}
Markov == \A x, y \in KRows : x[1] = y[1] => WOf(x[2]) = WOf(y[2])
KCode == TLCEval([s \in KStates |-> WOf((CHOOSE x \in KRows : x[1] = s)[2])])
CombW == Combined(Iv, Coh)
Pi == IF T.op = "nameBT_mcmc" THEN NameBTpi(CombW) ELSE SlateBTpi(Own, Cown, SlateCounts(Iv))
Complete == \A s \in DOMAIN Pi : Pi[s][1] > 0 => s \in KStates
KernelIsMetropolis == LET K == KCode  pi == TLCEval(Pi) IN
                      \A s \in KStates : s \in DOMAIN pi /\ (LET row == MetRow(s, pi, DOMAIN pi) IN \A t \in DOMAIN pi : KAt(K, s, t) = row[t])
Seed == T.seed
(* slate-BT through the chain: the patterns follow the chain, each pattern is filled independently *)
ChainFillSeqP(s, K, wt) == RMul(ChainP([j \in DOMAIN s |-> TypeOfB(s[j])], K, Seed), IndepP(s, LAMBDA j, b : wt[b]))

(* ---- spatial ---- *)
CPos == PairsFn(T.cpos, LAMBDA x : x)
SpatialOK(flat) == /\ Len(flat) = Len(T.vpos)
                   /\ \E arr \in Arrangements(flat) : \A v \in DOMAIN arr : SortedByDistance(arr[v], T.vpos[v], CPos, T.metric)

Mcmc == T.op \in {"nameBT_mcmc", "slateBT_mcmc"}
Pre == IF T.op = "nameBT_mcmc" THEN "NameBT-MCMC" ELSE "SlateBT-MCMC"
Clause ==
  IF T.error # "" THEN "Error:" \o T.error
  ELSE IF T.op \in {"spatial1d", "spatial", "clustered"} THEN
       (IF ~(\A i \in DOMAIN Law : SpatialOK(Law[i].flat)) THEN "Spatial:Order"
        (* the one-dimensional model is documented to draw candidates and voters from the standard normal law: every continuous draw   *)
        (* it requests is logged as <<name, 1000 * location, 1000 * scale>>                                                        *)
        ELSE IF T.op = "spatial1d" /\ ToSet(T.draws) # {<<"normal", 0, 1000>>} THEN "Spatial:PositionLaw" ELSE "")
  ELSE IF Mcmc /\ ~(\A x \in KRows : RSumF(WOf(x[2])) = R(1)) THEN Pre \o ":RowSum"
  ELSE IF Mcmc /\ ~Markov THEN Pre \o ":NotMarkov"
  ELSE IF Mcmc /\ ~Complete THEN Pre \o ":Incomplete"
  ELSE IF Mcmc /\ ~(LET K == KCode  pi == TLCEval(Pi) IN Stationary(K, pi)) THEN Pre \o ":Stationary"
  ELSE IF Mcmc /\ ~(LET K == KCode  pi == TLCEval(Pi) IN Irreducible(K, pi)) THEN Pre \o ":Reducible"
  ELSE IF Len(T.law) > 0 /\ ~LawComplete THEN "LawNotNormalised"
  ELSE IF T.op = "cumulative" THEN
       (IF AgreesIidT(Tab(LAMBDA b : CumProb(PairsFn(b, LAMBDA n : n), Iv, Coh, T.k))) THEN "" ELSE "Cumulative:Law")
  ELSE IF ~RankingsOK THEN "Malformed"
  ELSE CASE T.op = "namePL" -> IF AgreesIidT(Tab(LAMBDA b : NamePLProb(b, Iv, Coh, T.k))) THEN "" ELSE "PL:Law"
         [] T.op = "nameBT" -> IF AgreesIidT(Tab(LAMBDA b : NameBTProb(b, Iv, Coh))) THEN "" ELSE "NameBT:Law"
         [] T.op = "IC"     -> IF AgreesIidT(Tab(LAMBDA b : ICProb(b, Cands))) THEN "" ELSE "IC:Uniform"
         [] T.op = "slatePL" ->
              IF ~MarginalAgreesIidT(TypeOfB, TTab(LAMBDA t : SPLTypeProb(t, Coh, SlateCounts(Iv)))) THEN "SlatePL:TypeLaw"
              ELSE IF ~AgreesIidT(Tab(LAMBDA b : SlatePLProb(b, Iv, Coh))) THEN "SlatePL:WithinSlateOrder" ELSE ""
         [] T.op = "slateBT" ->
              IF ~MarginalAgreesIidT(TypeOfB, TTab(LAMBDA t : SBTTypeProb(t, Own, Cown, SlateCounts(Iv)))) THEN "SlateBT:TypeLaw"
              ELSE IF ~AgreesIidT(Tab(LAMBDA b : SlateBTProb(b, Iv, Own, Cown))) THEN "SlateBT:WithinSlateOrder" ELSE ""
         [] T.op = "AC" ->
              IF ~SplitOK THEN "AC:Split"
              ELSE IF ~ACShapeOK THEN "AC:Shape"
              ELSE LET ptB == Tab(LAMBDA b : ACProb(b, "bloc", Iv, Own, Opp))  ptC == Tab(LAMBDA b : ACProb(b, "cross", Iv, Own, Opp))
                   IN IF ~Agrees(LAMBDA s : KindSeqP(s, ptB, ptC)) THEN "AC:WithinSlateOrder" ELSE ""
         [] T.op = "Cambridge" ->
              IF ~SplitOK THEN "Cambridge:Split"
              ELSE LET ttB == TTab(LAMBDA t : CamTypeP("bloc", t))  ttC == TTab(LAMBDA t : CamTypeP("cross", t))
                       ptB == Tab(LAMBDA b : CamProb(b, "bloc", Iv, Own, Opp, Cown, Hist, Lab, OLab))
                       ptC == Tab(LAMBDA b : CamProb(b, "cross", Iv, Own, Opp, Cown, Hist, Lab, OLab))
                   IN IF ~MarginalAgrees(TypeOfB, LAMBDA s : CamTypeSeqP(s, ttB, ttC)) THEN "Cambridge:TypeLaw"
                      ELSE IF ~Agrees(LAMBDA s : KindSeqP(s, ptB, ptC)) THEN "Cambridge:WithinSlateOrder" ELSE ""
         [] T.op = "nameBT_mcmc" ->       \* the profile is the bag of the states the chain visits
              LET K == KCode IN IF ~Agrees(LAMBDA s : ChainP(s, K, Seed)) THEN "NameBT-MCMC:PathLaw" ELSE ""
         [] T.op = "slateBT_mcmc" ->
              LET K == KCode  wt == Tab(LAMBDA b : WithinProb(b, Iv)) IN
              IF ~MarginalAgrees(TypeOfB, LAMBDA s : ChainP(s, K, Seed)) THEN "SlateBT-MCMC:PathLaw"
              ELSE IF ~Agrees(LAMBDA s : ChainFillSeqP(s, K, wt)) THEN "SlateBT-MCMC:WithinSlateOrder" ELSE ""
         [] OTHER -> "UnknownOp"
(* not part of the property (which fixes only the stationary law), reported as information: the kernel is the *)
(* adjacent-swap Metropolis kernel of the documentation                                                       *)
Info == IF Mcmc /\ T.error = "" /\ Clause = "" /\ ~KernelIsMetropolis THEN Pre \o ":Kernel" ELSE ""

TInit == tid \in 1..Len(Traces) /\ done = FALSE
Advance == /\ ~done
           /\ Clause \in STRING       \* evaluated here, outside the Serialize override: an evaluation error (overflow) is then TLC's, not a silent FALSE
           /\ Write([tid |-> T.id, kind |-> "final", l |-> 0, nrej |-> IF Clause = "" THEN 0 ELSE 1, clause |-> Clause,
                     status |-> T.op, rule |-> T.op, flags |-> <<>>])
           /\ (Info = "" \/ Write([tid |-> T.id, kind |-> "info", l |-> 0, nrej |-> 0, clause |-> Info, status |-> T.op, rule |-> T.op, flags |-> <<>>]))
           /\ done' = TRUE /\ UNCHANGED tid
TSpec == TInit /\ [][Advance]_<<tid, done>>
=============================================================================
