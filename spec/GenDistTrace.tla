----------------------------- MODULE GenDistTrace -----------------------------
(* Call-level trace validation for the ballot generators (C16).                                      *)
(* One trace = one generator (model + exact small rational parameters of ONE voter bloc) together     *)
(* with the EXACT law of what the real code returned for that bloc, obtained by enumerating every     *)
(* outcome of every random draw of the code (harness/rng.py):                                         *)
(*     law    = << <<outcome, n>>, ... >>, den    P(outcome) = n / den;  outcome = the bloc's profile as a bag *)
(*              << <<ballot, count>>, ... >>,  ballot = the sequence of its supported candidates       *)
(*              (name-Cumulative: << <<candidate, points>>, ... >>)                                   *)
(*     kernel = << <<state, << <<next state, <<n, d>>>>, ... >> >>, ... >>   (MCMC samplers)           *)
(* The specification computes the probability the model of GenDist.tla gives to every logged outcome  *)
(* and compares exactly; the logged law must sum to one, so an outcome the code can never produce     *)
(* although the model can is noticed as well.  Verdict: the first failing clause, named after the      *)
(* part of the statement it belongs to.                                                                *)
EXTENDS GenDist, Json, IOUtils
VARIABLES tid, done
Traces == ndJsonDeserialize(IOEnv.TRACE_FILE)
T == Traces[tid]
Write(rec) == Serialize(ToJson(rec) \o "\n", IOEnv.VERDICT_FILE,
                        [format |-> "TXT", charset |-> "UTF-8", openOptions |-> <<"WRITE", "CREATE", "APPEND">>]).exitValue = 0

(* ---- JSON -> parameters ---- *)
PairsFn(js, V(_)) == LET S == ToSet(js) IN [k \in {x[1] : x \in S} |-> V((CHOOSE x \in S : x[1] = k)[2])]
WOf(js) == PairsFn(js, Rat2)
Iv   == PairsFn(T.iv, WOf)
Coh  == PairsFn(T.coh, Rat2)
Own  == T.own
Opp  == T.opp
Cown == Coh[Own]
Hist == PairsFn(T.hist, LAMBDA n : n)
Lab  == T.labels[1]
OLab == T.labels[2]
Rep(x, n) == [i \in 1..n |-> x]
RECURSIVE FlatOf(_)
FlatOf(o) == IF o = <<>> THEN <<>> ELSE Rep(Head(o)[1], Head(o)[2]) \o FlatOf(Tail(o))
Law == [i \in DOMAIN T.law |-> [flat |-> FlatOf(T.law[i][1]), p |-> Norm(T.law[i][2], T.den)]]      \* numerators over the common denominator T.den
LawSum == FoldSet(LAMBDA i, acc : T.law[i][2] + acc, 0, DOMAIN T.law)
BagKey(s) == [x \in SeqSet(s) |-> CountIn(s, x)]                   \* a sequence as a bag
Cands == AllCands(Iv)

(* ---- generic comparison: every logged outcome has exactly the probability SeqP gives to its bag ---- *)
Agrees(SeqP(_)) == \A i \in DOMAIN Law : BagP(Law[i].flat, SeqP) = Law[i].p
(* the same after mapping every ballot through F (marginal law of the bag of images) *)
MarginalAgrees(F(_), SeqP(_)) ==
  LET img(i) == [j \in DOMAIN Law[i].flat |-> F(Law[i].flat[j])]
      keys == {BagKey(img(i)) : i \in DOMAIN Law}
  IN \A k \in keys : LET I == {i \in DOMAIN Law : BagKey(img(i)) = k}  i0 == CHOOSE i \in I : TRUE
                     IN RSumSet(I, LAMBDA i : Law[i].p) = BagP(img(i0), SeqP)
AgreesIid(P(_)) == Agrees(LAMBDA s : IndepP(s, LAMBDA j, x : P(x)))
MarginalAgreesIid(F(_), P(_)) == MarginalAgrees(F, LAMBDA s : IndepP(s, LAMBDA j, x : P(x)))

RankingsOK == \A i \in DOMAIN Law : \A j \in DOMAIN Law[i].flat :
                 LET b == Law[i].flat[j] IN IsInjective(b) /\ SeqSet(b) \subseteq Cands
TypeOfB(b) == TypeOf(b, Iv)

(* ---- AlternatingCrossover / CambridgeSampler: the split into bloc-first and opposing-first ballots ---- *)
Props == [i \in DOMAIN T.props |-> Rat2(T.props[i])]
Splits == {<<a[T.tix[1]], a[T.tix[2]]>> : a \in HH(Props, T.ntot)}          \* allowed (bloc-first, opposing-first) numbers
KindOf(b) == IF b # <<>> /\ b[1] \in DOMAIN Iv[Own] THEN "bloc" ELSE "cross"
SplitOf(flat) == <<Cardinality({j \in DOMAIN flat : KindOf(flat[j]) = "bloc"}), Cardinality({j \in DOMAIN flat : KindOf(flat[j]) = "cross"})>>
SplitOK == \A i \in DOMAIN Law : SplitOf(Law[i].flat) \in Splits
(* the order in which the code lays out the two kinds does not matter for a bag: bloc-first ballots first *)
KindAt(flat, j) == IF j <= SplitOf(flat)[1] THEN "bloc" ELSE "cross"
ACSeqP(s) == IndepP(s, LAMBDA j, b : ACProb(b, KindAt(s, j), Iv, Own, Opp))
ACShapeOK == \A i \in DOMAIN Law : \A j \in DOMAIN Law[i].flat :
                LET b == Law[i].flat[j] IN b = ACShape(KindOf(b), RestrictTo(b, DOMAIN Iv[Own]), RestrictTo(b, DOMAIN Iv[Opp]))
CamSeqP(s) == IndepP(s, LAMBDA j, b : CamProb(b, KindAt(s, j), Iv, Own, Opp, Cown, Hist, Lab, OLab))
(* slate pattern law of a Cambridge ballot *)
CamW2 == CamW(Iv, Own, Opp, Cown)
CamTypeP(kind, t) ==
  LET no == Cardinality(Supp(CamW2) \cap DOMAIN Iv[Own])  np == Cardinality(Supp(CamW2) \cap DOMAIN Iv[Opp])
      ts == CamTypes(Hist, IF kind = "bloc" THEN Lab ELSE OLab)
      tot == FoldSet(LAMBDA x, acc : Hist[x] + acc, 0, ts)
  IN IF tot = 0 THEN R(0) ELSE RSumSet({x \in ts : FillFrom(x, Lab, Rep(Own, no), Rep(Opp, np)) = t}, LAMBDA x : Norm(Hist[x], tot))
CamKindOfT(t) == IF t # <<>> /\ t[1] = Own THEN "bloc" ELSE "cross"
CamTypeSeqP(s) == LET nb == Cardinality({j \in DOMAIN s : CamKindOfT(s[j]) = "bloc"}) IN
                  IndepP(s, LAMBDA j, t : CamTypeP(IF j <= nb THEN "bloc" ELSE "cross", t))

(* ---- MCMC: the kernel extracted from the code ---- *)
KRows == ToSet(T.kernel)
KStates == {x[1] : x \in KRows}
Markov == \A x, y \in KRows : x[1] = y[1] => WOf(x[2]) = WOf(y[2])
KCode == [s \in KStates |-> WOf((CHOOSE x \in KRows : x[1] = s)[2])]
CombW == Combined(Iv, Coh)
Pi == IF T.op = "nameBT_mcmc" THEN NameBTpi(CombW) ELSE SlateBTpi(Own, Cown, SlateCounts(Iv))
KSpec == Metropolis(Pi)
Complete == \A s \in DOMAIN Pi : Pi[s][1] > 0 => s \in KStates
KernelIsMetropolis == \A s \in KStates : s \in DOMAIN KSpec /\ \A t \in DOMAIN KSpec[s] : KAt(KCode, s, t) = KSpec[s][t]
Seed == T.seed
WithinSeqP(s) == IndepP(s, LAMBDA j, b : WithinProb(b, Iv))
(* slate-BT through the chain: the patterns follow the chain, each pattern is filled independently *)
ChainFillSeqP(s) == RMul(ChainP([j \in DOMAIN s |-> TypeOfB(s[j])], KCode, Seed), WithinSeqP(s))

(* ---- spatial ---- *)
CPos == PairsFn(T.cpos, LAMBDA x : x)
SpatialOK(flat) == /\ Len(flat) = Len(T.vpos)
                   /\ \E arr \in Arrangements(flat) : \A v \in DOMAIN arr : SortedByDistance(arr[v], T.vpos[v], CPos, T.metric)

Mcmc == T.op \in {"nameBT_mcmc", "slateBT_mcmc"}
Pre == IF T.op = "nameBT_mcmc" THEN "NameBT-MCMC" ELSE "SlateBT-MCMC"
Clause ==
  IF T.error # "" THEN "Error:" \o T.error
  ELSE IF T.op \in {"spatial1d", "spatial", "clustered"} THEN
       (IF \A i \in DOMAIN Law : SpatialOK(Law[i].flat) THEN "" ELSE "Spatial:Order")
  ELSE IF Mcmc /\ ~(\A x \in KRows : RSumF(WOf(x[2])) = R(1)) THEN Pre \o ":RowSum"
  ELSE IF Mcmc /\ ~Markov THEN Pre \o ":NotMarkov"
  ELSE IF Mcmc /\ ~Complete THEN Pre \o ":Incomplete"
  ELSE IF Mcmc /\ ~Stationary(KCode, Pi) THEN Pre \o ":Stationary"
  ELSE IF Mcmc /\ ~Irreducible(KCode, Pi) THEN Pre \o ":Reducible"
  ELSE IF Len(T.law) > 0 /\ LawSum # T.den THEN "LawNotNormalised"
  ELSE IF T.op = "cumulative" THEN
       (IF AgreesIid(LAMBDA b : CumProb(PairsFn(b, LAMBDA n : n), Iv, Coh, T.k)) THEN "" ELSE "Cumulative:Law")
  ELSE IF ~RankingsOK THEN "Malformed"
  ELSE CASE T.op = "namePL" -> IF AgreesIid(LAMBDA b : NamePLProb(b, Iv, Coh, T.k)) THEN "" ELSE "PL:Law"
         [] T.op = "nameBT" -> IF AgreesIid(LAMBDA b : NameBTProb(b, Iv, Coh)) THEN "" ELSE "NameBT:Law"
         [] T.op = "IC"     -> IF AgreesIid(LAMBDA b : ICProb(b, Cands)) THEN "" ELSE "IC:Uniform"
         [] T.op = "slatePL" ->
              IF ~MarginalAgreesIid(TypeOfB, LAMBDA t : SPLTypeProb(t, Coh, SlateCounts(Iv))) THEN "SlatePL:TypeLaw"
              ELSE IF ~AgreesIid(LAMBDA b : SlatePLProb(b, Iv, Coh)) THEN "SlatePL:WithinSlateOrder" ELSE ""
         [] T.op = "slateBT" ->
              IF ~MarginalAgreesIid(TypeOfB, LAMBDA t : SBTTypeProb(t, Own, Cown, SlateCounts(Iv))) THEN "SlateBT:TypeLaw"
              ELSE IF ~AgreesIid(LAMBDA b : SlateBTProb(b, Iv, Own, Cown)) THEN "SlateBT:WithinSlateOrder" ELSE ""
         [] T.op = "AC" ->
              IF ~SplitOK THEN "AC:Split"
              ELSE IF ~ACShapeOK THEN "AC:Shape"
              ELSE IF ~Agrees(ACSeqP) THEN "AC:WithinSlateOrder" ELSE ""
         [] T.op = "Cambridge" ->
              IF ~SplitOK THEN "Cambridge:Split"
              ELSE IF ~MarginalAgrees(TypeOfB, CamTypeSeqP) THEN "Cambridge:TypeLaw"
              ELSE IF ~Agrees(CamSeqP) THEN "Cambridge:WithinSlateOrder" ELSE ""
         [] T.op = "nameBT_mcmc" ->       \* the profile is the bag of the states the chain visits
              IF ~Agrees(LAMBDA s : ChainP(s, KCode, Seed)) THEN "NameBT-MCMC:PathLaw" ELSE ""
         [] T.op = "slateBT_mcmc" ->
              IF ~MarginalAgrees(TypeOfB, LAMBDA s : ChainP(s, KCode, Seed)) THEN "SlateBT-MCMC:PathLaw"
              ELSE IF ~Agrees(ChainFillSeqP) THEN "SlateBT-MCMC:WithinSlateOrder" ELSE ""
         [] OTHER -> "UnknownOp"
(* not part of the property (which fixes only the stationary law), reported as information: the kernel is the *)
(* adjacent-swap Metropolis kernel of the documentation                                                       *)
Info == IF Mcmc /\ T.error = "" /\ Clause = "" /\ ~KernelIsMetropolis THEN Pre \o ":Kernel" ELSE ""

TInit == tid \in 1..Len(Traces) /\ done = FALSE
Advance == /\ ~done
           /\ Write([tid |-> T.id, kind |-> "final", l |-> 0, nrej |-> IF Clause = "" THEN 0 ELSE 1, clause |-> Clause,
                     status |-> T.op, rule |-> T.op, flags |-> <<>>])
           /\ (Info = "" \/ Write([tid |-> T.id, kind |-> "info", l |-> 0, nrej |-> 0, clause |-> Info, status |-> T.op, rule |-> T.op, flags |-> <<>>]))
           /\ done' = TRUE /\ UNCHANGED tid
TSpec == TInit /\ [][Advance]_<<tid, done>>
=============================================================================
