------------------------------ MODULE Loaders ------------------------------
(* Cast-vote-record loaders and the CSV writer, written from the statement of C18  *)
(* and the docstrings of load_csv / load_scottish / PreferenceProfile.to_csv.       *)
(*                                                                                  *)
(* Abstract CSV table: a sequence of data rows, a row is a sequence of cells, a     *)
(* cell is a string and "" is the empty cell (the header line, the delimiter,       *)
(* quoting and the concrete candidate names belong to the concretisation done by    *)
(* the harness).  Columns are numbered from 1 here (the code counts from 0; the     *)
(* harness shifts).                                                                 *)
(*   cfg.rank   : sequence of distinct column numbers, top rank first; <<>> means   *)
(*                "all columns contain rankings", i.e. every column that is not     *)
(*                the id or the weight column, in column order                      *)
(*   cfg.id     : voter-id column or 0                                              *)
(*   cfg.weight : weight column or 0 (cells are decimal numerals)                   *)
(* A loaded ballot is a "ranking with explicit blanks": the sequence of the cells   *)
(* of the rank columns in cfg.rank order, "" standing for the blank position        *)
(* (the docstring: "Empty cells are treated as None").                              *)
EXTENDS Integers, Sequences, FiniteSets, FiniteSetsExt, SequencesExt, Functions, Folds, TLC

Blank == ""
SumNat(f, S) == FoldSet(LAMBDA x, acc : f[x] + acc, 0, S)
(* the number a weight cell denotes *)
WVal(s) == CHOOSE n \in 0..400 : ToString(n) = s

RankCols(cfg, ncols) == IF cfg.rank # <<>> THEN cfg.rank
                        ELSE SelectSeq([i \in 1..ncols |-> i], LAMBDA c : c # cfg.id /\ c # cfg.weight)
Pattern(row, rc) == [i \in 1..Len(rc) |-> row[rc[i]]]
RowWeight(row, cfg) == IF cfg.weight = 0 THEN 1 ELSE WVal(row[cfg.weight])

(* the bag the statement prescribes: one ballot per distinct pattern of the rank columns, *)
(* weight = number of rows (or summed weight cells) having that pattern                   *)
CsvBag(rows, cfg) ==
  LET rc == RankCols(cfg, Len(rows[1]))
      pats == {Pattern(rows[i], rc) : i \in 1..Len(rows)}
  IN [p \in pats |-> SumNat([i \in 1..Len(rows) |-> RowWeight(rows[i], cfg)], {i \in 1..Len(rows) : Pattern(rows[i], rc) = p})]

(* the documented rejections; when two apply the docstring does not rank them, so either is allowed *)
CsvErrors(exists, rows, cfg) ==
  IF ~exists THEN {"FileNotFoundError"}
  ELSE IF rows = <<>> THEN {"EmptyDataError"}
  ELSE (IF cfg.id # 0 /\ \E i \in 1..Len(rows) : rows[i][cfg.id] = Blank THEN {"ValueError"} ELSE {})
       \cup (IF cfg.id # 0 /\ \E i, j \in 1..Len(rows) : i # j /\ rows[i][cfg.id] # Blank /\ rows[i][cfg.id] = rows[j][cfg.id] THEN {"DataError"} ELSE {})
       \* (a missing id is not a voter id: two blank cells are "missing values", not a duplicate)

(* Block rows (files of tens of thousands of rows): reps[i] = n > 1 means that row i stands for n consecutive rows with the same cells  *)
(* except for the voter id, the n - 1 extra ids being fresh, non-blank and distinct from every other id of the file (the harness writes *)
(* them so).  Blank / duplicate ids can therefore only occur among the listed rows, and a pattern's weight counts every repetition.    *)
CsvBagR(rows, cfg, reps) ==
  LET rc == RankCols(cfg, Len(rows[1]))
      pats == {Pattern(rows[i], rc) : i \in 1..Len(rows)}
  IN [p \in pats |-> SumNat([i \in 1..Len(rows) |-> reps[i] * RowWeight(rows[i], cfg)], {i \in 1..Len(rows) : Pattern(rows[i], rc) = p})]
LoadCSVR(exists, rows, cfg, reps) ==
  LET errs == CsvErrors(exists, rows, cfg)
  IN IF errs # {} THEN {[err |-> e, bag |-> <<>>] : e \in errs}
     ELSE {[err |-> "", bag |-> CsvBagR(rows, cfg, reps)]}

NoBag == <<>>
(* the set of outcomes load_csv may produce: records of one shape, err = "" meaning a profile was returned *)
LoadCSV(exists, rows, cfg) ==
  LET errs == CsvErrors(exists, rows, cfg)
  IN IF errs # {} THEN {[err |-> e, bag |-> NoBag] : e \in errs}
     ELSE {[err |-> "", bag |-> CsvBag(rows, cfg)]}

BagTotal(b) == SumNat(b, DOMAIN b)

(* --------------------------------------------------------------------------- Scottish format *)
(* Abstract Scottish file (blank rows, trailing commas and quoting are concretisation):         *)
(*   meta    : the numbers on the first row (well-formed: <<candidates, seats>>)                 *)
(*   ballots : sequence of [w |-> multiplicity, prefs |-> non-empty sequence of candidate numbers] *)
(*   cands   : sequence of <<name, party>> (party "" = the party cell is missing), numbered 1..  *)
(*   ward    : sequence holding the ward name (well-formed: exactly one)                         *)
(*   exists / content : the file exists / has any non-blank row                                  *)
ScotMalformed(f) == \/ Len(f.meta) # 2
                    \/ f.meta[1] # Len(f.cands)
                    \/ Len(f.ward) # 1
                    \/ \E i \in 1..Len(f.cands) : f.cands[i][2] = Blank
ScotOutOfRange(f) == \E i \in 1..Len(f.ballots) : \E k \in 1..Len(f.ballots[i].prefs) : f.ballots[i].prefs[k] \notin 1..Len(f.cands)
(* allowed error classes; "*" = must be rejected, the docstring names no class *)
ScotErrors(f) ==
  IF ~f.exists THEN {"FileNotFoundError"}
  ELSE IF ~f.content THEN {"EmptyDataError", "DataError"}
  ELSE IF ScotMalformed(f) THEN {"DataError"}
  ELSE IF ScotOutOfRange(f) THEN {"*"}
  ELSE {}
ScotRanking(f, prefs) == [k \in 1..Len(prefs) |-> f.cands[prefs[k]][1]]
ScotBag(f) ==
  LET rks == {ScotRanking(f, f.ballots[i].prefs) : i \in 1..Len(f.ballots)}
  IN [r \in rks |-> SumNat([i \in 1..Len(f.ballots) |-> f.ballots[i].w], {i \in 1..Len(f.ballots) : ScotRanking(f, f.ballots[i].prefs) = r})]
LoadScottish(f) == [seats |-> f.meta[2], ward |-> f.ward[1],
                    cands |-> {f.cands[i][1] : i \in 1..Len(f.cands)},
                    party |-> {<<f.cands[i][1], f.cands[i][2]>> : i \in 1..Len(f.cands)},
                    bag   |-> ScotBag(f)]

(* --------------------------------------------------------------------------- to_csv *)
(* one row per ballot carrying its weight, ranking and scores: as multisets the rows are the ballots *)
Count(seq, x) == Cardinality({i \in 1..Len(seq) : seq[i] = x})
SameMultiset(s, t) == Len(s) = Len(t) /\ \A x \in Range(s) \cup Range(t) : Count(s, x) = Count(t, x)
=============================================================================
