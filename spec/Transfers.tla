------------------------------ MODULE Transfers ------------------------------
(* The two built-in surplus transfer rules, written from the statement of C03, *)
(* parameterised by the winner w, its tally t and the threshold q.             *)
EXTENDS Scoring
Pile(p, w) == {r \in DOMAIN p : r[1] = {w}}
TransferValueQ(t, q) == IF t[1] = 0 THEN R(0) ELSE RDiv(RSub(t, R(q)), t)       \* (tally - threshold) / tally
FracOneQ(p, w, t, q) == [r \in DOMAIN p |-> IF r[1] = {w} THEN RMul(p[r], TransferValueQ(t, q)) ELSE p[r]]
(* random transfer: whole ballots, a sub-bag of the winner's transferable unit ballots *)
Transferable(p, w) == {r \in Pile(p, w) : Len(r) > 1}
RandPicksQ(p, w, t, q) ==
  LET pile == Transferable(p, w)
      tot  == SumInt([r \in pile |-> p[r][1]], pile)
      s    == RFloor(t) - q
      K    == IF s < tot THEN s ELSE tot                     \* min(surplus, transferable)
  IN {f \in [pile -> 0..K] : (\A r \in pile : f[r] <= p[r][1]) /\ SumInt(f, pile) = K}
RECURSIVE Binom(_,_)
Binom(n, k) == IF k = 0 \/ k = n THEN 1 ELSE IF k < 0 \/ k > n THEN 0 ELSE Binom(n-1, k-1) + Binom(n-1, k)
(* multivariate hypergeometric probability of the pick f: every transferable unit ballot equally likely *)
PickProb(p, w, f) ==
  LET pile == DOMAIN f
      tot  == SumInt([r \in pile |-> p[r][1]], pile)
      K    == SumInt(f, pile)
  IN Norm(FoldSet(LAMBDA r, acc : Binom(p[r][1], f[r]) * acc, 1, pile), Binom(tot, K))
ApplyPick(p, w, f) == [r \in ((DOMAIN p \ Pile(p, w)) \cup {x \in DOMAIN f : f[x] > 0}) |->
                          IF r \in DOMAIN f THEN R(f[r]) ELSE p[r]]
IntegerBag(p) == \A r \in DOMAIN p : RIsInt(p[r])
(* the bag a fractional transfer of w's pile must return *)
FractionalResult(p, w, t, q) == RemoveCands(Positive(FracOneQ(p, w, t, q)), {w})
(* the set of <<bag, probability>> a random transfer of w's pile may return *)
RandomResults(p, w, t, q) == {<<RemoveCands(ApplyPick(p, w, f), {w}), PickProb(p, w, f)>> : f \in RandPicksQ(p, w, t, q)}
(* The same membership as a predicate, without enumerating the picks (piles of thousands of votes): the ballots not led by w are handed *)
(* on untouched (base), so the pick can be read off the returned bag -- f[r] = out[r minus w] - base[r minus w] -- and it must be a      *)
(* sub-collection of the transferable pile of size min(surplus, transferable) that reproduces the returned bag exactly.                 *)
NonPile(p, w) == [r \in DOMAIN p \ Pile(p, w) |-> p[r]]
PickOf(p, w, out) ==
  LET base == RemoveCands(NonPile(p, w), {w})
  IN [r \in Transferable(p, w) |-> LET r2 == Strip(r, {w}) IN
        RSub(IF r2 \in DOMAIN out THEN out[r2] ELSE R(0), IF r2 \in DOMAIN base THEN base[r2] ELSE R(0))]
IsRandomResult(p, w, t, q, out) ==
  LET pile == Transferable(p, w)
      tot  == SumInt([r \in pile |-> p[r][1]], pile)
      s    == RFloor(t) - q
      K    == IF s < tot THEN s ELSE tot
      fq   == PickOf(p, w, out)
      f    == [r \in pile |-> fq[r][1]]
  IN /\ \A r \in pile : RIsInt(fq[r]) /\ f[r] >= 0 /\ f[r] <= p[r][1]
     /\ SumInt(f, pile) = K
     /\ out = RemoveCands(ApplyPick(p, w, f), {w})
=============================================================================
