----------------------------- MODULE RatingTrace -----------------------------
(* Call-level trace validation for the score-ballot rules (C05): one trace =   *)
(* one construction of Rating / Approval / Limited / Cumulative /              *)
(* BlocPlurality / GeneralRating on a score profile: either the exception      *)
(* class, or the two recorded rounds.                                          *)
EXTENDS Rating, Json, IOUtils, TLC
VARIABLES tid, done
Traces == ndJsonDeserialize(IOEnv.TRACE_FILE)
T == Traces[tid]
SetSeq(js) == [i \in 1..Len(js) |-> ToSet(js[i])]
SBallot(js) == LET S == ToSet(js) IN [c \in {x[1] : x \in S} |-> Rat2((CHOOSE x \in S : x[1] = c)[2])]
SBagOf(js) == LET S == ToSet(js) IN [b \in {SBallot(x.s) : x \in S} |-> Rat2((CHOOSE x \in S : SBallot(x.s) = b).w)]
ScoresOf(js) == SBallot(js)
TbOf(js) == {<<ToSet(t.tied), SetSeq(t.order)>> : t \in ToSet(js)}
Write(rec) == Serialize(ToJson(rec) \o "\n", IOEnv.VERDICT_FILE,
                        [format |-> "TXT", charset |-> "UTF-8", openOptions |-> <<"WRITE", "CREATE", "APPEND">>]).exitValue = 0
C == ToSet(T.cands)
Cfg == [rule |-> T.cfg.rule, m |-> T.cfg.m, L |-> Rat2(T.cfg.L), hasK |-> T.cfg.hasK, k |-> Rat2(T.cfg.k), tb |-> T.cfg.tb]
SP == SBagOf(T.prof0)
PosBag(b) == [x \in {y \in DOMAIN b : b[y][1] > 0} |-> b[x]]
(* a ballot without scores is logged in T.unscored (its weight does not matter) *)
Valid == T.unscored = 0 /\ Accepts(SP, Cfg)
Tot == ScoreTotals(SP, C)
Clause ==
  IF ~Valid THEN (IF T.error = "TypeError" /\ T.rounds = <<>> THEN "" ELSE IF T.error = "" THEN "InvalidProfileAccepted" ELSE "Error:" \o T.error)
  ELSE IF T.error = "TypeError" THEN "ValidProfileRejected"
  ELSE IF Len(T.rounds) = 0 THEN "Error:" \o T.error
  ELSE IF ScoresOf(T.rounds[1].scores) # Tot THEN "Totals"
  ELSE IF SetSeq(T.rounds[1].remaining) # Group(Tot, C) THEN "Round0Order"
  ELSE IF T.error # "" THEN
       (IF T.error = "ValueError" /\ \E o \in Outcomes(SP, C, Cfg) : o.err THEN "" ELSE "Error:" \o T.error)
  ELSE IF Len(T.rounds) # 2 THEN "Rounds"
  ELSE IF \E i \in 1..Len(T.rounds) : T.rounds[i].rn # i - 1 THEN "RoundNumber"        \* the stored round number is the position of the state
  ELSE LET e == T.rounds[2]
           match == {o \in Outcomes(SP, C, Cfg) : ~o.err /\ o.elected = SetSeq(e.elected)} IN
       IF match = {} THEN "Winners"
       ELSE IF ~\E o \in match : o.remaining = SetSeq(e.remaining) /\ o.tbs = TbOf(e.tiebreaks) THEN "Tiebreak"
       ELSE LET W == UNION Range(SetSeq(e.elected)) IN
            IF ScoresOf(e.scores) # ScoreTotals(RemoveScored(SP, W), C \ W) THEN "Round1Totals"
            ELSE IF SBagOf(e.bag) # PosBag(RemoveScored(SP, W)) THEN "Round1Profile"      \* a ballot of weight zero is judged like any other but leaves no trace in a bag
            ELSE ""
(* how many different results the specification allows for this input (1 unless a random tiebreak is needed; 0 if the input is refused *)
(* or the boundary tie is unbroken): the harness requires the real code, over all outcomes of its random draws, to produce exactly as many *)
NumOutcomes == IF ~Valid THEN 0 ELSE Cardinality({o \in Outcomes(SP, C, Cfg) : ~o.err})
TInit == tid \in 1..Len(Traces) /\ done = FALSE
Advance == /\ ~done
           /\ Clause \in STRING       \* evaluated here, outside the Serialize override: an evaluation error (overflow) is then TLC's, not a silent FALSE
           /\ Write([tid |-> T.id, kind |-> "final", l |-> 0, nrej |-> IF Clause = "" THEN 0 ELSE 1, clause |-> Clause,
                     status |-> T.cfg.rule, rule |-> T.cfg.rule, flags |-> <<>>, nout |-> NumOutcomes])
           /\ done' = TRUE /\ UNCHANGED tid
TSpec == TInit /\ [][Advance]_<<tid, done>>
=============================================================================
