------------------------------ MODULE Pairwise ------------------------------
(* Head-to-head margins, dominating tiers (Smith decomposition) written     *)
(* from the statement of C06, plus the implementation-shaped definition     *)
(* (group by size of the reachable set in the beats-or-ties digraph).       *)
EXTENDS Transfers

PosOf(r, a) == CHOOSE i \in 1..Len(r) : a \in r[i]
(* ballot r ranks a strictly above b: a listed, and b unlisted or in a later position *)
RanksAbove(r, a, b) == /\ a \in Listed(r)
                       /\ (b \notin Listed(r) \/ PosOf(r, a) < PosOf(r, b))
Margin(p, a, b) == RSub(SumRat(p, {r \in DOMAIN p : RanksAbove(r, a, b)}),
                        SumRat(p, {r \in DOMAIN p : RanksAbove(r, b, a)}))
Beats(p, a, b) == RLt(R(0), Margin(p, a, b))
BeatsOrTies(p, a, b) == RLe(R(0), Margin(p, a, b))

(* declarative tiers *)
Dominating(p, D, C) == D # {} /\ \A a \in D, b \in C \ D : Beats(p, a, b)
Smith(p, C) == CHOOSE D \in SUBSET C : Dominating(p, D, C) /\ \A E \in SUBSET C : Dominating(p, E, C) => D \subseteq E
RECURSIVE Tiers(_,_)
Tiers(p, C) == IF C = {} THEN <<>> ELSE LET S == Smith(p, C) IN <<S>> \o Tiers(p, C \ S)

(* implementation-shaped tiers *)
RECURSIVE ReachFrom(_,_,_)
ReachFrom(S, p, C) == LET N == S \cup {b \in C : \E a \in S : a # b /\ BeatsOrTies(p, a, b)}
                      IN IF N = S THEN S ELSE ReachFrom(N, p, C)
ReachCount(p, a, C) == Cardinality(ReachFrom({a}, p, C) \ {a})
RECURSIVE TiersByReach(_,_,_)
TiersByReach(p, D, C) == IF D = {} THEN <<>> ELSE
   LET top == {a \in D : \A b \in D : ReachCount(p, b, C) <= ReachCount(p, a, C)}
   IN <<top>> \o TiersByReach(p, D \ top, C)

(* a cycle of the beats-or-ties digraph (a pairwise tie is a cycle of length two) *)
HasCycle(p, C) == \E a, b \in C : a # b /\ b \in ReachFrom({a}, p, C) /\ a \in ReachFrom({b}, p, C)
HasCondorcetWinner(p, C) == \E a \in C : \A b \in C \ {a} : Beats(p, a, b)
(* the three stated properties of a tier list t over C *)
TiersOK(p, t, C) ==
  /\ UNION Range(t) = C /\ \A i, j \in 1..Len(t) : i # j => t[i] \cap t[j] = {}
  /\ \A i \in 1..Len(t) : t[i] # {}
  /\ \A i, j \in 1..Len(t) : i < j => \A a \in t[i], b \in t[j] : Beats(p, a, b)
  /\ \A i \in 1..Len(t) : ~\E D \in (SUBSET t[i]) \ {{}, t[i]} : \A a \in D, b \in t[i] \ D : Beats(p, a, b)
=============================================================================
