------------------------------- MODULE Rat -------------------------------
(* Exact rational arithmetic over TLC integers.  A rational is <<n, d>>,   *)
(* d > 0, gcd(|n|, d) = 1 (zero is <<0, 1>>).  TLC integers are 32 bit and *)
(* TLC aborts on overflow (it never wraps), so the harness keeps every     *)
(* logged numerator / denominator small (see harness/common.py RAT_BOUND). *)
EXTENDS Integers, Sequences
RECURSIVE GCD(_,_)
GCD(a,b) == IF b = 0 THEN a ELSE GCD(b, a % b)
Abs(x) == IF x < 0 THEN -x ELSE x
Norm(n,d) == IF n = 0 THEN <<0,1>> ELSE LET g == GCD(Abs(n), d) IN <<n \div g, d \div g>>
R(n) == <<n,1>>
IsRat(x) == /\ x \in Int \X Int /\ x[2] > 0 /\ Norm(x[1], x[2]) = x
RAdd(x,y) == Norm(x[1]*y[2] + y[1]*x[2], x[2]*y[2])
RSub(x,y) == Norm(x[1]*y[2] - y[1]*x[2], x[2]*y[2])
RMul(x,y) == Norm(x[1]*y[1], x[2]*y[2])
RNeg(x)   == <<-x[1], x[2]>>
RDiv(x,y) == IF y[1] > 0 THEN Norm(x[1]*y[2], x[2]*y[1]) ELSE Norm(-x[1]*y[2], x[2]*(-y[1]))
RLt(x,y) == x[1]*y[2] < y[1]*x[2]
RLe(x,y) == x[1]*y[2] <= y[1]*x[2]
REq(x,y) == x[1]*y[2] = y[1]*x[2]
RFloor(x) == x[1] \div x[2]
RAbs(x) == <<Abs(x[1]), x[2]>>
RMax(x,y) == IF RLt(x,y) THEN y ELSE x
RIsInt(x) == x[2] = 1
RECURSIVE RPow(_,_)
RPow(x, k) == IF k = 0 THEN R(1) ELSE RMul(x, RPow(x, k-1))
RECURSIVE RSumSeq(_)
RSumSeq(s) == IF s = <<>> THEN R(0) ELSE RAdd(Head(s), RSumSeq(Tail(s)))
RECURSIVE Fact(_)
Fact(n) == IF n <= 1 THEN 1 ELSE n * Fact(n-1)
(* JSON arrays [n, d] arrive as 2-tuples already; Rat2 re-normalises defensively *)
Rat2(x) == Norm(x[1], x[2])
=============================================================================
