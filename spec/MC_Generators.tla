------------------------------ MODULE MC_Generators ------------------------------
(* Spec-level facts about the definitions of Generators.tla, on bounded inputs   *)
(* built by actions.  Three sub-models selected by the constant Mode:            *)
(*   "HH"  : weight vectors (AddType) and house sizes (IncN)                     *)
(*   "BT"  : support vectors (AddCand) split into two slates, cohesion k/D (IncK) *)
(*   "SBT" : slate sizes (AddOwn / AddOpp), cohesion k/D (IncK)                  *)
EXTENDS Generators, TLC
CONSTANTS Mode, MaxTypes, MaxW, MaxN, MaxCands, MaxSup, D
VARIABLES w, n, x, no, np, k
vars == <<w, n, x, no, np, k>>
Init == w = <<>> /\ n = 0 /\ x = <<>> /\ no = 0 /\ np = 0 /\ k = 0
AddType == /\ Mode = "HH" /\ Len(w) < MaxTypes
           /\ \E v \in 0..MaxW : w' = Append(w, v)
           /\ UNCHANGED <<n, x, no, np, k>>
IncN    == Mode = "HH" /\ n < MaxN /\ n' = n + 1 /\ UNCHANGED <<w, x, no, np, k>>
AddCand == /\ Mode = "BT" /\ Len(x) < MaxCands
           /\ \E v \in 0..MaxSup : x' = Append(x, v)
           /\ UNCHANGED <<w, n, no, np, k>>
IncK    == Mode \in {"BT", "SBT"} /\ k < D /\ k' = k + 1 /\ UNCHANGED <<w, n, x, no, np>>
AddOwn  == Mode = "SBT" /\ no < MaxCands /\ no' = no + 1 /\ UNCHANGED <<w, n, x, np, k>>
AddOpp  == Mode = "SBT" /\ np < MaxCands /\ np' = np + 1 /\ UNCHANGED <<w, n, x, no, k>>
Next == AddType \/ IncN \/ AddCand \/ IncK \/ AddOwn \/ AddOpp
Spec == Init /\ [][Next]_vars

(* ------------------------------------------------------------ Huntington-Hill *)
Live == PosTypes(w) # {}
HHExists == Live => HHSet(w, n) # {}
(* the seat-by-seat procedure lands in the declarative set (in particular it hands out exactly n seats) *)
HHConstructive == Live => (SeqSum(HHSeq(w, n)) = n /\ HHSeq(w, n) \in HHSet(w, n))
TieFree == LET P == PosTypes(w) IN
   IF n < Cardinality(P) THEN \A i, j \in P : i # j => w[i] # w[j]
   ELSE \A i, j \in P : i # j => \A a, b \in 1..n : w[i] * w[i] * b * (b + 1) # w[j] * w[j] * a * (a + 1)
AbsI(a) == IF a < 0 THEN -a ELSE a
HHUniqueUpToTies == Live => /\ \A s, t \in HHSet(w, n) : \A i \in DOMAIN w : AbsI(s[i] - t[i]) <= 1
                            /\ TieFree => Cardinality(HHSet(w, n)) = 1
(* house monotone: a larger house never costs a type a seat *)
HHMonotone == Live => \A s \in HHSet(w, n) : \E t \in HHSet(w, n + 1) : \A i \in DOMAIN w : t[i] >= s[i]
HHScaleFree == Live => HHSet([i \in DOMAIN w |-> 3 * w[i]], n) = HHSet(w, n)
(* rational shares and integer weights describe the same apportionment problem *)
HHRationalShares == Live => LET tot == SeqSum(w) IN IntWeights([i \in DOMAIN w |-> Norm(w[i], tot)]) = [i \in DOMAIN w |-> w[i] \div FoldSet(LAMBDA j, acc : GCD(w[j], acc), 0, DOMAIN w)]

(* ------------------------------------------------------------ intervals, Bradley-Terry *)
Y == [c \in NonZero(x) |-> x[c]]                    \* the supported candidates with their weights
HasSupport == NonZero(x) # {}
IntervalSumsToOne == HasSupport => SumRat(Interval(x), NonZero(x)) = R(1)
IntervalIdempotent == HasSupport => /\ NormaliseR(Interval(x)) = Interval(x)
                                    /\ Interval([c \in DOMAIN x |-> 3 * x[c]]) = Interval(x)
                                    /\ Interval(x) = NormaliseR([c \in DOMAIN x |-> R(x[c])])
                                    /\ ZeroC(x) \cup DOMAIN Interval(x) = DOMAIN x /\ ZeroC(x) \cap DOMAIN Interval(x) = {}
BTFormsAgree == HasSupport => \A r \in Orders(NonZero(x)) :
                    /\ BTW(Y, r) = BTPow(Y, r)
                    /\ RMul(BTPair(Y, r), R(BTDen(Y))) = R(BTW(Y, r))
BTSumsToNormaliser == HasSupport =>
     /\ SumInt(BTTable(Y), Orders(NonZero(x))) = BTZ(Y) /\ BTZ(Y) > 0
     /\ FoldSet(LAMBDA r, acc : RAdd(Norm(BTW(Y, r), BTZ(Y)), acc), R(0), Orders(NonZero(x))) = R(1)
BTScaleFree == HasSupport => LET Y2 == [c \in DOMAIN Y |-> 2 * Y[c]] IN
     \A r \in Orders(NonZero(x)) : Norm(BTW(Y2, r), BTZ(Y2)) = Norm(BTW(Y, r), BTZ(Y))
(* two slates: the first half of the candidates and the rest; cohesion k/D for the first *)
Half == (Len(x) + 1) \div 2
Sups == [b \in {"o", "p"} |-> IF b = "o" THEN [c \in 1..Half |-> x[c]] ELSE [c \in (Half + 1)..Len(x) |-> x[c]]]
Coh == [b \in {"o", "p"} |-> IF b = "o" THEN Norm(k, D) ELSE Norm(D - k, D)]
Splittable == Len(x) >= 2 /\ SupSum(Sups["o"]) > 0 /\ SupSum(Sups["p"]) > 0
CombineOK == Splittable => LET cw == CombW(Sups, Coh)  z == SumInt(cw, DOMAIN cw)  cr == CombinedR(Sups, Coh) IN
     /\ cr = [c \in DOMAIN cw |-> Norm(cw[c], z)]                                           \* integer and rational forms agree
     /\ \A c \in DOMAIN cr : cr[c] = RMul(Coh[SlateOfC(Sups, c)], Interval(Sups[SlateOfC(Sups, c)])[c])   \* "times its cohesion share"
     /\ SumRat(cr, DOMAIN cr) = R(1)
     /\ CombZero(Sups, Coh) = {c \in 1..Len(x) : x[c] = 0 \/ Coh[SlateOfC(Sups, c)][1] = 0}

(* ------------------------------------------------------------ slate Bradley-Terry *)
SwapAt(t, i) == [j \in DOMAIN t |-> IF j = i THEN t[i + 1] ELSE IF j = i + 1 THEN t[i] ELSE t[j]]
SBTSumsToNormaliser == LET z == SBTZ(no, np, k, D) IN
     /\ z > 0 /\ SumInt([t \in SBTypes(no, np) |-> SBTW(t, k, D)], SBTypes(no, np)) = z
     /\ z < 40000 => FoldSet(LAMBDA t, acc : RAdd(Norm(SBTW(t, k, D), z), acc), R(0), SBTypes(no, np)) = R(1)   \* z^2 must fit 32 bits
SBTPairsPartition == \A t \in SBTypes(no, np) : OwnAbove(t) + OppAbove(t) = no * np
SBTCount == Cardinality(SBTypes(no, np)) * Fact(no) * Fact(np) = Fact(no + np)
SBTEnds == /\ k = D => \A t \in SBTypes(no, np) : (SBTW(t, k, D) > 0 <=> OppAbove(t) = 0)
           /\ k = 0 => \A t \in SBTypes(no, np) : (SBTW(t, k, D) > 0 <=> OwnAbove(t) = 0)
(* the Bradley-Terry local rule: moving one own candidate below one adjacent other candidate costs the odds (1-c)/c *)
SBTLocal == \A t \in SBTypes(no, np) : \A i \in 1..(no + np - 1) :
               (t[i] = "o" /\ t[i + 1] = "p") => SBTW(t, k, D) * (D - k) = SBTW(SwapAt(t, i), k, D) * k
=============================================================================
