------------------------------ MODULE GenDist ------------------------------
(* The draw machines of the ballot generators, written from the statement of  *)
(* C16 and the class docstrings, as exact probability laws over small rational *)
(* parameters.                                                                 *)
(*                                                                             *)
(*   W        a weight function  candidate |-> rational >= 0  (an interval; it  *)
(*            need not sum to one, every law below normalises)                  *)
(*   iv       the voter bloc's intervals,  slate |-> W                          *)
(*   coh      the voter bloc's cohesion row,  slate |-> rational, sum 1         *)
(*   a ballot is the sequence of its positively supported candidates; a slate   *)
(*   pattern ("type") is the sequence of slate names a ballot shows             *)
(* Candidates without support are never drawn by any model (where they are     *)
(* put is a matter of C14), so every law lives on the supported candidates.    *)
EXTENDS Integers, Sequences, FiniteSets, FiniteSetsExt, SequencesExt, Functions, Folds, Rat, TLC

(* sums go through the least common denominator (TLC integers are 32 bit and TLC aborts on overflow) *)
RAddL(x, y) == LET g == GCD(x[2], y[2]) IN Norm(x[1] * (y[2] \div g) + y[1] * (x[2] \div g), (x[2] \div g) * y[2])
RSumSet(S, g(_))  == FoldSet(LAMBDA x, acc : RAddL(g(x), acc), R(0), S)
(* product with the cross factors cancelled first *)
RMulS(x, y) == LET g1 == GCD(Abs(x[1]), y[2])  g2 == GCD(Abs(y[1]), x[2])
               IN IF x[1] = 0 \/ y[1] = 0 THEN R(0) ELSE <<(x[1] \div g1) * (y[1] \div g2), (x[2] \div g2) * (y[2] \div g1)>>
RProdSet(S, g(_)) == FoldSet(LAMBDA x, acc : RMul(g(x), acc), R(1), S)
RSumF(f)  == RSumSet(DOMAIN f, LAMBDA x : f[x])
ISumF(f)  == FoldSet(LAMBDA x, acc : f[x] + acc, 0, DOMAIN f)
RMin1(x)  == IF RLt(R(1), x) THEN R(1) ELSE x
Supp(W)   == {c \in DOMAIN W : W[c][1] > 0}                       \* supported candidates
PermsOf(S) == {s \in [1..Cardinality(S) -> S] : IsInjective(s)}
PrefixesOf(S, k) == {s \in [1..k -> S] : IsInjective(s)}
SeqSet(s) == {s[i] : i \in DOMAIN s}
CountIn(s, x) == Cardinality({i \in DOMAIN s : s[i] = x})
IMin(a, b) == IF a < b THEN a ELSE b

(* ---------------------------------------------------------------- Plackett-Luce *)
(* successive sampling without replacement: each position is drawn from what is     *)
(* left, with probability proportional to the weights                                *)
RECURSIVE PLFrom(_,_,_)
PLFrom(seq, W, rem) ==
  IF seq = <<>> THEN R(1)
  ELSE IF rem[1] <= 0 THEN R(0)
  ELSE RMul(RDiv(W[Head(seq)], rem), PLFrom(Tail(seq), W, RSub(rem, W[Head(seq)])))
(* probability that the first Len(seq) picks are seq *)
PLProb(seq, W) == IF IsInjective(seq) /\ SeqSet(seq) \subseteq Supp(W) THEN PLFrom(seq, W, RSumF(W)) ELSE R(0)
(* ... and of a complete order of the supported candidates *)
PLFull(seq, W) == IF Len(seq) = Cardinality(Supp(W)) THEN PLProb(seq, W) ELSE R(0)

(* ---------------------------------------------------------------- combined interval *)
AllCands(iv)   == UNION {DOMAIN iv[s] : s \in DOMAIN iv}
SlateOf(iv, c) == CHOOSE s \in DOMAIN iv : c \in DOMAIN iv[s]
NormW(W)       == LET t == RSumF(W) IN [c \in DOMAIN W |-> RDiv(W[c], t)]
(* every slate's interval rescaled to the bloc's cohesion for that slate, side by side *)
Combined(iv, coh) == [c \in AllCands(iv) |-> LET s == SlateOf(iv, c) IN RMul(coh[s], NormW(iv[s])[c])]

(* name-Plackett-Luce (ballot_length k; the full model has k = number of candidates) *)
NamePLProb(b, iv, coh, k) ==
  LET W == Combined(iv, coh) IN
  IF Len(b) = IMin(k, Cardinality(Supp(W))) THEN PLProb(b, W) ELSE R(0)

(* name-Cumulative: k independent draws with replacement; pts = candidate |-> points > 0 *)
CumProb(pts, iv, coh, k) ==
  LET W == NormW(Combined(iv, coh)) IN
  IF ~(DOMAIN pts \subseteq Supp(W)) \/ (\E c \in DOMAIN pts : pts[c] < 1) \/ ISumF(pts) # k THEN R(0)
  ELSE RMul(Norm(Fact(k), FoldSet(LAMBDA c, acc : Fact(pts[c]) * acc, 1, DOMAIN pts)),
            RProdSet(DOMAIN pts, LAMBDA c : RPow(W[c], pts[c])))
CumSupport(iv, coh, k) ==
  LET S == Supp(Combined(iv, coh)) IN
  {[c \in {x \in S : f[x] > 0} |-> f[c]] : f \in {g \in [S -> 0..k] : ISumF(g) = k}}

(* ---------------------------------------------------------------- slate patterns *)
SlateCounts(iv) == [s \in DOMAIN iv |-> Cardinality(Supp(iv[s]))]
Arrs(cnt) == LET n == ISumF(cnt) IN {t \in [1..n -> DOMAIN cnt] : \A s \in DOMAIN cnt : CountIn(t, s) = cnt[s]}
NumArrs(cnt) == FoldSet(LAMBDA s, acc : acc \div Fact(cnt[s]), Fact(ISumF(cnt)), DOMAIN cnt)
IsArr(t, cnt) == Len(t) = ISumF(cnt) /\ SeqSet(t) \subseteq DOMAIN cnt /\ \A s \in DOMAIN cnt : CountIn(t, s) = cnt[s]
(* slate-Plackett-Luce: position by position a slate is drawn with probability proportional to   *)
(* the cohesion, among the slates that still have a candidate to give (renormalisation when a    *)
(* slate is used up).  If all that is left has cohesion 0 the rest is a uniformly random          *)
(* arrangement (the ratio is 0/0; this is what the comment in sample_cohesion_ballot_types says). *)
RECURSIVE SPLTypeFrom(_,_,_)
SPLTypeFrom(t, coh, left) ==
  IF t = <<>> THEN R(1)
  ELSE LET s    == Head(t)
           live == {x \in DOMAIN left : left[x] > 0}
           tot  == RSumSet(live, LAMBDA x : coh[x])
       IN IF s \notin live THEN R(0)
          ELSE IF tot[1] = 0 THEN (IF IsArr(t, left) THEN Norm(1, NumArrs(left)) ELSE R(0))
          ELSE RMul(RDiv(coh[s], tot), SPLTypeFrom(Tail(t), coh, [left EXCEPT ![s] = @ - 1]))
SPLTypeProb(t, coh, cnt) == IF IsArr(t, cnt) THEN SPLTypeFrom(t, coh, cnt) ELSE R(0)

(* slate-Bradley-Terry: a pattern is weighted by  cohesion^(own above other) (1-cohesion)^(other above own), *)
(* counted over all pairs of one own and one other position                                                  *)
UpPairs(t, own)   == Cardinality({p \in (DOMAIN t) \X (DOMAIN t) : p[1] < p[2] /\ t[p[1]] = own /\ t[p[2]] # own})
DownPairs(t, own) == Cardinality({p \in (DOMAIN t) \X (DOMAIN t) : p[1] < p[2] /\ t[p[1]] # own /\ t[p[2]] = own})
SBTWeight(t, own, c) == RMul(RPow(c, UpPairs(t, own)), RPow(RSub(R(1), c), DownPairs(t, own)))
SBTTypeProb(t, own, c, cnt) ==
  IF ~IsArr(t, cnt) THEN R(0)
  ELSE RDiv(SBTWeight(t, own, c), RSumSet(Arrs(cnt), LAMBDA x : SBTWeight(x, own, c)))

(* ---------------------------------------------------------------- ballots of the slate models *)
TypeOf(b, iv)  == [i \in DOMAIN b |-> SlateOf(iv, b[i])]
RestrictTo(b, S) == SelectSeq(b, LAMBDA c : c \in S)
IsSlateBallot(b, iv) == IsInjective(b) /\ SeqSet(b) \subseteq AllCands(iv)
(* the candidates of each slate, read off the ballot from top to bottom, are a Plackett-Luce order *)
(* from the voter bloc's interval for that slate, independently for the slates                     *)
WithinProb(b, iv) == RProdSet(DOMAIN iv, LAMBDA s : PLFull(RestrictTo(b, DOMAIN iv[s]), iv[s]))
SlatePLProb(b, iv, coh) ==
  IF IsSlateBallot(b, iv) THEN RMul(SPLTypeProb(TypeOf(b, iv), coh, SlateCounts(iv)), WithinProb(b, iv)) ELSE R(0)
SlateBTProb(b, iv, own, c) ==
  IF IsSlateBallot(b, iv) THEN RMul(SBTTypeProb(TypeOf(b, iv), own, c, SlateCounts(iv)), WithinProb(b, iv)) ELSE R(0)
SlateBallots(iv) == {b \in PermsOf(UNION {Supp(iv[s]) : s \in DOMAIN iv}) : TRUE}

(* ---------------------------------------------------------------- name-Bradley-Terry *)
(* P(x1 > x2 > ... ) proportional to the product, over all pairs (x ranked above y), of  x / (x + y).          *)
(* BTPairs is that product; the product of all the denominators (x + y) does not depend on the ranking, so    *)
(* the law is also proportional to BTWeight = the product of the numerators, taken over the interval scaled   *)
(* to integers (small numbers for TLC; MC_GenDist checks that both forms give the same law).                   *)
BTPairs(b, W) == RProdSet({p \in (DOMAIN b) \X (DOMAIN b) : p[1] < p[2]},
                          LAMBDA p : RDiv(W[b[p[1]]], RAdd(W[b[p[1]]], W[b[p[2]]])))
LCD(W) == FoldSet(LAMBDA c, acc : (W[c][2] * acc) \div GCD(W[c][2], acc), 1, DOMAIN W)
IntW(W) == LET l == LCD(W)  V == [c \in DOMAIN W |-> W[c][1] * (l \div W[c][2])]
               g == FoldSet(LAMBDA c, acc : GCD(V[c], acc), 0, DOMAIN W)
           IN [c \in DOMAIN W |-> V[c] \div g]
BTWeightI(b, V) == R(FoldSet(LAMBDA p, acc : V[b[p[1]]] * acc, 1, {p \in (DOMAIN b) \X (DOMAIN b) : p[1] < p[2]}))
BTWeight(b, W) == BTWeightI(b, IntW(W))
NameBTProbW(b, W) ==
  IF ~(IsInjective(b) /\ SeqSet(b) = Supp(W)) THEN R(0)
  ELSE LET V == IntW(W) IN RDiv(BTWeightI(b, V), RSumSet(PermsOf(Supp(W)), LAMBDA x : BTWeightI(x, V)))
NameBTProbPairs(b, W) == RDiv(BTPairs(b, W), RSumSet(PermsOf(Supp(W)), LAMBDA x : BTPairs(x, W)))
NameBTProb(b, iv, coh) == NameBTProbW(b, Combined(iv, coh))

(* ---------------------------------------------------------------- impartial culture *)
ICProb(b, C) == IF IsInjective(b) /\ SeqSet(b) = C THEN Norm(1, Fact(Cardinality(C))) ELSE R(0)

(* ---------------------------------------------------------------- Huntington-Hill *)
(* seats one at a time to the largest priority v / sqrt(n(n+1)); a type without a seat has infinite  *)
(* priority (larger share first), a type with share 0 never gets one.  Ties: every choice is allowed, *)
(* so the result is a set of seat vectors.                                                          *)
HHBetter(v, a, i, j) ==
  IF a[i] = 0 /\ a[j] = 0 THEN RLt(v[j], v[i])
  ELSE IF a[i] = 0 THEN TRUE
  ELSE IF a[j] = 0 THEN FALSE
  ELSE RLt(RMul(RMul(v[j], v[j]), R(a[i] * (a[i] + 1))), RMul(RMul(v[i], v[i]), R(a[j] * (a[j] + 1))))
RECURSIVE HHFrom(_,_,_)
HHFrom(v, a, left) ==
  LET I == {i \in DOMAIN v : v[i][1] > 0}
      best == {i \in I : \A j \in I : ~HHBetter(v, a, j, i)}
  IN IF left = 0 \/ I = {} THEN {a} ELSE UNION {HHFrom(v, [a EXCEPT ![i] = @ + 1], left - 1) : i \in best}
HH(v, n) == HHFrom(v, [i \in DOMAIN v |-> 0], n)
(* the voter types of AlternatingCrossover / CambridgeSampler: bloc b splits into  cohesion * share  *)
(* bloc-first voters and  (1 - cohesion) * share  opposing-first voters                               *)

(* ---------------------------------------------------------------- AlternatingCrossover *)
RECURSIVE Alternate(_,_)
Alternate(p, q) == IF p = <<>> THEN q ELSE IF q = <<>> THEN p ELSE <<Head(p), Head(q)>> \o Alternate(Tail(p), Tail(q))
(* kind "bloc": all own candidates, then all opposing ones; kind "cross": an opposing candidate first, then alternating *)
ACShape(kind, o, p) == IF kind = "bloc" THEN o \o p ELSE Alternate(p, o)
ACProb(b, kind, iv, own, opp) ==
  IF ~IsSlateBallot(b, iv) THEN R(0)
  ELSE LET o == RestrictTo(b, DOMAIN iv[own])  p == RestrictTo(b, DOMAIN iv[opp]) IN
       IF b = ACShape(kind, o, p) THEN RMul(PLFull(o, iv[own]), PLFull(p, iv[opp])) ELSE R(0)
ACBallots(kind, iv, own, opp) == {ACShape(kind, o, p) : o \in PermsOf(Supp(iv[own])), p \in PermsOf(Supp(iv[opp]))}

(* ---------------------------------------------------------------- CambridgeSampler *)
(* hist: historical pattern (sequence of labels) |-> positive count.  A bloc-first voter draws a pattern among   *)
(* those that start with the own label, an opposing-first voter among those that start with the other label,    *)
(* proportionally to the counts; the slots are filled with per-slate Plackett-Luce orders, a slot whose slate   *)
(* has no candidate left is skipped.  Orders come from the combined interval (cohesion, 1 - cohesion): a slate  *)
(* whose share is 0 has no supported candidate.                                                                  *)
RECURSIVE FillFrom(_,_,_,_)
FillFrom(t, lab, o, p) ==      \* lab = own label
  IF t = <<>> THEN <<>>
  ELSE IF Head(t) = lab THEN (IF o = <<>> THEN FillFrom(Tail(t), lab, o, p) ELSE <<Head(o)>> \o FillFrom(Tail(t), lab, Tail(o), p))
  ELSE (IF p = <<>> THEN FillFrom(Tail(t), lab, o, p) ELSE <<Head(p)>> \o FillFrom(Tail(t), lab, o, Tail(p)))
CamW(iv, own, opp, c) == Combined(iv, (own :> c) @@ (opp :> RSub(R(1), c)))
CamTypes(hist, first) == {t \in DOMAIN hist : t[1] = first}
CamProb(b, kind, iv, own, opp, c, hist, lab, olab) ==
  LET W  == CamW(iv, own, opp, c)
      Wo == [x \in DOMAIN iv[own] |-> W[x]]
      Wp == [x \in DOMAIN iv[opp] |-> W[x]]
      ts == CamTypes(hist, IF kind = "bloc" THEN lab ELSE olab)
      tot == FoldSet(LAMBDA t, acc : hist[t] + acc, 0, ts)
      cases == {x \in ts \X PermsOf(Supp(Wo)) \X PermsOf(Supp(Wp)) : FillFrom(x[1], lab, x[2], x[3]) = b}
  IN IF tot = 0 THEN R(0)
     ELSE RSumSet(cases, LAMBDA x : RMul(Norm(hist[x[1]], tot), RMul(PLFull(x[2], Wo), PLFull(x[3], Wp))))
CamBallots(kind, iv, own, opp, c, hist, lab, olab) ==
  LET W  == CamW(iv, own, opp, c)
      Wo == [x \in DOMAIN iv[own] |-> W[x]]
      Wp == [x \in DOMAIN iv[opp] |-> W[x]]
  IN {FillFrom(t, lab, o, p) : t \in CamTypes(hist, IF kind = "bloc" THEN lab ELSE olab), o \in PermsOf(Supp(Wo)), p \in PermsOf(Supp(Wp))}

(* ---------------------------------------------------------------- profiles: bags of ballots *)
(* flat = the ballots of one outcome in some order; the generators forget the order, so the probability of the *)
(* bag is the sum, over its distinct arrangements, of the probability SeqP of drawing exactly that sequence     *)
Arrangements(flat) == {[i \in DOMAIN flat |-> flat[p[i]]] : p \in PermsOf(DOMAIN flat)}
BagP(flat, SeqP(_)) == RSumSet(Arrangements(flat), SeqP)
(* independent draws: P(i, x) = probability that draw i gives x *)
IndepP(s, P(_,_)) == LET pr[i \in 0..Len(s)] == IF i = 0 THEN R(1) ELSE RMul(pr[i-1], P(i, s[i])) IN pr[Len(s)]
(* a chain started in seed with kernel K (a function state |-> state |-> probability) *)
ChainP(s, K, seed) ==
  LET at(i) == IF i = 0 THEN seed ELSE s[i]
      pr[i \in 0..Len(s)] == IF i = 0 THEN R(1)
                             ELSE IF at(i-1) \in DOMAIN K /\ s[i] \in DOMAIN K[at(i-1)] THEN RMul(pr[i-1], K[at(i-1)][s[i]]) ELSE R(0)
  IN pr[Len(s)]

(* ---------------------------------------------------------------- the MCMC samplers as kernels *)
(* The documentation describes a chain on rankings (name-BT) / slate patterns (slate-BT) that proposes to swap *)
(* a uniformly chosen adjacent pair and accepts so that the Bradley-Terry table is the stationary law: the     *)
(* Metropolis kernel for the (unnormalised) weight pi.                                                        *)
SwapAt(s, j) == [i \in DOMAIN s |-> IF i = j THEN s[j+1] ELSE IF i = j + 1 THEN s[j] ELSE s[i]]
MAccept(ps, pt) == IF ps[1] = 0 THEN R(1) ELSE RMin1(RDiv(pt, ps))
MetRow(s, pi, S) ==
  LET n == Len(s)
      J == 1..(n-1)
      mv(t) == RSumSet({j \in J : SwapAt(s, j) = t}, LAMBDA j : RMul(Norm(1, n-1), MAccept(pi[s], pi[t])))
      out == RSumSet(S \ {s}, mv)
  IN [t \in S |-> IF t = s THEN RSub(R(1), out) ELSE mv(t)]
Metropolis(pi) == [s \in DOMAIN pi |-> MetRow(s, pi, DOMAIN pi)]
NameBTpi(W) == LET V == IntW(W) IN [s \in PermsOf(Supp(W)) |-> BTWeightI(s, V)]
SlateBTpi(own, c, cnt) == [t \in Arrs(cnt) |-> SBTWeight(t, own, c)]
(* facts about a kernel K on the state space DOMAIN pi *)
KAt(K, s, t) == IF s \in DOMAIN K /\ t \in DOMAIN K[s] THEN K[s][t] ELSE R(0)
RowsSumToOne(K)  == \A s \in DOMAIN K : RSumF(K[s]) = R(1)
DetailedBalance(K, pi) == \A s, t \in DOMAIN pi : RMulS(pi[s], KAt(K, s, t)) = RMulS(pi[t], KAt(K, t, s))
Stationary(K, pi) == \A t \in DOMAIN pi : RSumSet(DOMAIN pi, LAMBDA s : RMulS(pi[s], KAt(K, s, t))) = pi[t]
RECURSIVE ReachSet(_,_)
ReachSet(K, seen) ==
  LET nxt == seen \cup {t \in UNION {DOMAIN K[s] : s \in seen \cap DOMAIN K} : \E s \in seen \cap DOMAIN K : t \in DOMAIN K[s] /\ K[s][t][1] > 0}
  IN IF nxt = seen THEN seen ELSE ReachSet(K, nxt)
(* from every state of positive weight every state of positive weight can be reached *)
Irreducible(K, pi) == LET P == {s \in DOMAIN pi : pi[s][1] > 0} IN \A s \in P : P \subseteq ReachSet(K, {s})

(* ---------------------------------------------------------------- spatial models *)
(* pos: candidate |-> position (a sequence of integers), v a voter position; dist2(v, c) any monotone image of   *)
(* the distance.  A ballot is acceptable for the voter iff it lists all candidates by non-decreasing distance.  *)
SqDist(x, y) == FoldSet(LAMBDA i, acc : (x[i] - y[i]) * (x[i] - y[i]) + acc, 0, DOMAIN x)
L1Dist(x, y) == FoldSet(LAMBDA i, acc : Abs(x[i] - y[i]) + acc, 0, DOMAIN x)
Dist(m, x, y) == IF m = "l1" THEN L1Dist(x, y) ELSE SqDist(x, y)
SortedByDistance(b, v, pos, m) ==
  /\ IsInjective(b) /\ SeqSet(b) = DOMAIN pos
  /\ \A i \in 1..(Len(b) - 1) : Dist(m, v, pos[b[i]]) <= Dist(m, v, pos[b[i+1]])
=============================================================================
