------------------------------ MODULE ProfileADT ------------------------------
(* Abstract value model of Ballot / PreferenceProfile (C11) and of the        *)
(* ballot-editing utilities (C12), written from the statements of the two     *)
(* properties.                                                                *)
(*                                                                            *)
(*  - a ballot *content* is a record  [r |-> ranking, s |-> scores]:          *)
(*      r  a sequence of candidate sets, possibly empty (<<>> = no ranking);  *)
(*      s  the graph {<<cand, rational>>} of a function cand -> positive      *)
(*         rational, possibly empty ({} = no scores; zero scores are absent). *)
(*    (The graph of the function is used instead of a TLA+ function so that   *)
(*    "no scores" is the ordinary empty set and TLC never has to compare an   *)
(*    empty tuple with a function.)                                           *)
(*  - a weighted ballot is [c |-> content, w |-> rational];                   *)
(*  - a profile is a *sequence* of weighted ballots.  Ballot order is part of *)
(*    the value on purpose: independence of order is a theorem to check       *)
(*    (MC_ProfileADT) and a clause to validate (ProfileADTTrace), never an    *)
(*    assumption.  Ids and voter sets carry no meaning for any clause of      *)
(*    C11 / C12 except merge_ballots and are not part of the abstract value.  *)
(*  - the abstraction of a profile is the bag  content |-> total weight       *)
(*    (PBag), restricted to contents of non-zero total weight.                *)
EXTENDS Pairwise      \* Rat, Ballots (ranking bags), Scoring (Fpv, Borda), Pairwise (Margin)

Cont(r, s) == [r |-> r, s |-> s]
WB(r, s, w) == [c |-> Cont(r, s), w |-> w]
NoProfile == <<>>
IsEmptyC(k) == k.r = <<>> /\ k.s = {}
ScoreCands(k) == {x[1] : x \in k.s}
ContCands(k) == Listed(k.r) \cup ScoreCands(k)

SumIdx(P, I) == FoldSet(LAMBDA i, acc : RAdd(P[i].w, acc), R(0), I)
Contents(P) == {P[i].c : i \in DOMAIN P}
WeightOf(P, k) == SumIdx(P, {i \in DOMAIN P : P[i].c = k})          \* R(0) for a content that does not occur
(* the abstraction: bag of contents *)
PBag(P) == [k \in {x \in Contents(P) : WeightOf(P, x) # R(0)} |-> WeightOf(P, k)]
Distinct(P) == \A i, j \in DOMAIN P : i # j => P[i].c # P[j].c

(* ---- derived fields (C11: "equal what the ballots imply") ---- *)
NumBallots(P) == Len(P)
TotalWt(P) == SumIdx(P, DOMAIN P)
CastCands(P) == UNION {ContCands(P[i].c) : i \in {j \in DOMAIN P : RLt(R(0), P[j].w)}}   \* cast = on a ballot of positive weight

(* ---- condense / == / + ---- *)
FirstIdx(P) == {i \in DOMAIN P : \A j \in 1..(i-1) : P[j].c # P[i].c}
(* one ballot per content (in order of first occurrence) carrying the summed weight *)
Condense(P) == LET idx == SetToSortSeq(FirstIdx(P), <)
               IN [n \in 1..Len(idx) |-> [c |-> P[idx[n]].c, w |-> WeightOf(P, P[idx[n]].c)]]
(* "compare equal exactly when they assign the same total weight to every ballot content" *)
ProfileEq(P, Q) == \A k \in Contents(P) \cup Contents(Q) : WeightOf(P, k) = WeightOf(Q, k)
ProfileAdd(P, Q) == P \o Q
PBagAdd(b1, b2) == LET m == [k \in DOMAIN b1 \cup DOMAIN b2 |->
                               RAdd(IF k \in DOMAIN b1 THEN b1[k] ELSE R(0), IF k \in DOMAIN b2 THEN b2[k] ELSE R(0))]
                   IN [k \in {x \in DOMAIN m : m[x] # R(0)} |-> m[k]]
(* the input class on which an asymmetric ballot comparison can misbehave: same ranking, one ballot scored, one not *)
MixedScored(P) == \E i, j \in DOMAIN P : P[i].c.r = P[j].c.r /\ P[i].c.s = {} /\ P[j].c.s # {}
Permuted(P, f) == [i \in DOMAIN P |-> P[f[i]]]
Perms(n) == {f \in [1..n -> 1..n] : \A i, j \in 1..n : i # j => f[i] # f[j]}

(* ---- editing utilities on profiles (C12) ---- *)
(* apply a content map to every ballot, ballots that end up empty disappear with their weight *)
MapProfile(P, F(_)) == SelectSeq([i \in DOMAIN P |-> [c |-> F(P[i].c), w |-> P[i].w]], LAMBDA b : ~IsEmptyC(b.c))
StripC(k, X) == Cont(Strip(k.r, X), {x \in k.s : x[1] \notin X})      \* Strip (Ballots): close gaps, keep order and grouping
RemoveCandsP(P, X) == MapProfile(P, LAMBDA k : StripC(k, X))
ExhaustedWt(P, X) == SumIdx(P, {i \in DOMAIN P : IsEmptyC(StripC(P[i].c, X))})
(* order and grouping of survivors: a above b / a tied with b is the same before and after *)
Rel(r, a, b) == IF a \notin Listed(r) \/ b \notin Listed(r) THEN "unlisted"
                ELSE IF PosOf(r, a) < PosOf(r, b) THEN "above" ELSE IF PosOf(r, a) = PosOf(r, b) THEN "tied" ELSE "below"
NoRepeat(r) == \A i, j \in 1..Len(r) : i # j => r[i] \cap r[j] = {}

(* ranking-level view used by the utilities that only speak about rankings:                *)
(* RB(P) is the bag of module Ballots (non-empty rankings, positive weight)                *)
RankWeight(P, r) == SumIdx(P, {i \in DOMAIN P : P[i].c.r = r})
RB(P) == Positive([r \in {P[i].c.r : i \in DOMAIN P} \ {<<>>} |-> RankWeight(P, r)])
(* the same but keeping the key <<>> for ballots that survive through their scores only *)
RankBagAll(P) == Positive([r \in {P[i].c.r : i \in DOMAIN P} |-> RankWeight(P, r)])
DropScores(P) == [i \in DOMAIN P |-> [c |-> Cont(P[i].c.r, {}), w |-> P[i].w]]
DropRanking(P) == [i \in DOMAIN P |-> [c |-> Cont(<<>>, P[i].c.s), w |-> P[i].w]]
HasScores(P) == \E i \in DOMAIN P : P[i].c.s # {}
HasRankless(P) == \E i \in DOMAIN P : P[i].c.r = <<>>

(* de-duplicate: a candidate that already appeared is removed from the rest of the ballot (first occurrence stays) *)
SeenBefore(r, i) == UNION {r[j] : j \in 1..(i-1)}
Dedup(r) == SelectSeq([i \in 1..Len(r) |-> r[i] \ SeenBefore(r, i)], LAMBDA g : g # {})
Deduplicate(p) == ImageBag(p, Dedup)
RemoveNoncands(p, X) == RemoveCands(p, X)                      \* Ballots!RemoveCands: image bag under Strip, exhausted dropped
RemoveNoncandsDedup(p, X) == ImageBag(p, LAMBDA r : Dedup(Strip(r, X)))
(* AddMissing(p, C) and ExpandTies(p) are the operators of module Ballots *)
RemoveEmpty(P) == SelectSeq(P, LAMBDA b : b.c.r # <<>>)
MergeWeight(P) == TotalWt(P)
=============================================================================
