------------------------------ MODULE Ballots ------------------------------
(* Abstract ballots and profiles.                                          *)
(*  - a ranking is a sequence of non-empty, pairwise disjoint candidate    *)
(*    sets (a position with more than one candidate is a tie);             *)
(*  - a profile is a *bag*: a function  ranking |-> positive rational.     *)
(*    Ballot order, duplicate ballots, ids and voter sets are forgotten    *)
(*    here on purpose: anonymity / representation independence (C08) is    *)
(*    then a statement about the implementation's projection onto bags.    *)
EXTENDS Integers, Sequences, FiniteSets, FiniteSetsExt, SequencesExt, Functions, Folds, Rat

SumRat(f, S) == FoldSet(LAMBDA x, acc : RAdd(f[x], acc), R(0), S)
SumInt(f, S) == FoldSet(LAMBDA x, acc : f[x] + acc, 0, S)
NoBallots == <<>>
Total(p) == SumRat(p, DOMAIN p)
Listed(r) == UNION Range(r)
CandsCast(p) == UNION {Listed(r) : r \in DOMAIN p}
Untied(r) == \A i \in 1..Len(r) : Cardinality(r[i]) = 1
IsRanking(r, C) == /\ \A i \in 1..Len(r) : r[i] # {} /\ r[i] \subseteq C
                   /\ \A i, j \in 1..Len(r) : i # j => r[i] \cap r[j] = {}
Positive(p) == [r \in {x \in DOMAIN p : p[x][1] > 0} |-> p[r]]

(* remove candidates X from a ranking: close gaps, keep order and grouping *)
Strip(r, X) == SelectSeq([i \in 1..Len(r) |-> r[i] \ X], LAMBDA g : g # {})
(* image bag under a ranking map, dropping rankings mapped to <<>> (exhausted) *)
ImageBag(p, F(_)) ==
  LET imgs == {F(r) : r \in DOMAIN p} \ {<<>>}
  IN [q \in imgs |-> SumRat(p, {r \in DOMAIN p : F(r) = q})]
RemoveCands(p, X) == ImageBag(p, LAMBDA r : Strip(r, X))
Exhausted(p, X) == SumRat(p, {r \in DOMAIN p : Strip(r, X) = <<>>})
AddMissingR(r, C) == IF C \ Listed(r) = {} THEN r ELSE Append(r, C \ Listed(r))
AddMissing(p, C) == ImageBag(p, LAMBDA r : AddMissingR(r, C))

(* all strict orders (as sequences) of a finite set *)
Orders(S) == {s \in [1..Cardinality(S) -> S] : \A i, j \in 1..Cardinality(S) : i # j => s[i] # s[j]}
Singles(o) == [i \in 1..Len(o) |-> {o[i]}]
(* all linearisations of a ranking with ties, each once *)
RECURSIVE Linearise(_)
Linearise(r) == IF r = <<>> THEN {<<>>}
                ELSE {Singles(o) \o t : o \in Orders(Head(r)), t \in Linearise(Tail(r))}
NumLin(r) == FoldFunction(LAMBDA g, acc : Fact(Cardinality(g)) * acc, 1, r)
(* expand every tied ballot into its linearisations at equal weight *)
ExpandTies(p) ==
  LET imgs == UNION {Linearise(r) : r \in DOMAIN p}
  IN [q \in imgs |-> SumRat([r \in DOMAIN p |-> RDiv(p[r], R(NumLin(r)))], {r \in DOMAIN p : q \in Linearise(r)})]
BagAdd(p, q) == [r \in DOMAIN p \cup DOMAIN q |->
                  IF r \in DOMAIN p /\ r \in DOMAIN q THEN RAdd(p[r], q[r])
                  ELSE IF r \in DOMAIN p THEN p[r] ELSE q[r]]
(* first candidate of an untied ranking *)
First(r) == CHOOSE c \in r[1] : TRUE
=============================================================================
