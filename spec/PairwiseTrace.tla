----------------------------- MODULE PairwiseTrace -----------------------------
(* Call-level trace validation for PairwiseComparisonGraph (C06): the recorded   *)
(* pairwise dictionary, dominating tiers and Condorcet answers of the real code  *)
(* must equal what Pairwise.tla defines from the statement.                      *)
EXTENDS Pairwise, Json, IOUtils, TLC
VARIABLES tid, done
Traces == ndJsonDeserialize(IOEnv.TRACE_FILE)
T == Traces[tid]
SetSeq(js) == [i \in 1..Len(js) |-> ToSet(js[i])]
BagOf(js) == LET S == ToSet(js) IN [r \in {SetSeq(b.r) : b \in S} |-> Rat2((CHOOSE b \in S : SetSeq(b.r) = r).w)]
Write(rec) == Serialize(ToJson(rec) \o "\n", IOEnv.VERDICT_FILE,
                        [format |-> "TXT", charset |-> "UTF-8", openOptions |-> <<"WRITE", "CREATE", "APPEND">>]).exitValue = 0
C == ToSet(T.cands)
P == BagOf(T.bag)
(* the dictionary the statement prescribes: (winner, loser) |-> margin, both directions |-> 0 for a pairwise tie *)
ExpectedDict == {<<a, b, Margin(P, a, b)>> : a, b \in C} \ {x \in {<<a, b, Margin(P, a, b)>> : a, b \in C} : x[1] = x[2] \/ x[3][1] < 0}
H2H(a, b) == RAdd(SumRat(P, {r \in DOMAIN P : RanksAbove(r, a, b)}),
                  RDiv(SumRat(P, {r \in DOMAIN P : a \notin Listed(r) /\ b \notin Listed(r)}), R(2)))
LoggedDict == {<<x[1], x[2], Rat2(x[3])>> : x \in ToSet(T.dict)}
Clause ==
  IF T.error # "" THEN "Error:" \o T.error
  ELSE IF LoggedDict # ExpectedDict THEN "Margins"
  ELSE IF SetSeq(T.tiers) # Tiers(P, C) THEN "Tiers"
  ELSE IF ~TiersOK(P, SetSeq(T.tiers), C) THEN "TiersOK"
  ELSE IF T.hascw # HasCondorcetWinner(P, C) THEN "HasCondorcetWinner"
  ELSE IF T.hascw /\ ~(\A b \in C \ {T.cw} : Beats(P, T.cw, b)) THEN "CondorcetWinner"
  ELSE IF ~T.hascw /\ T.cw # "ValueError" THEN "CondorcetWinnerError"
  ELSE IF T.hascycles # HasCycle(P, C) THEN "HasCondorcetCycles"
  (* head2head_count(a, b) on a graph built with the default ballot length: the weight that prefers a to b, a ballot that lists neither *)
  (* counting half for each (it is completed by every order of the missing candidates)                                              *)
  ELSE IF T.h2h # <<>> /\ {<<x[1], x[2], Rat2(x[3])>> : x \in ToSet(T.h2h)} # {<<a, b, H2H(a, b)>> : a, b \in C} \ {y \in {<<a, b, H2H(a, b)>> : a, b \in C} : y[1] = y[2]}
       THEN "HeadToHead"
  ELSE ""
TInit == tid \in 1..Len(Traces) /\ done = FALSE
Advance == /\ ~done
           /\ Clause \in STRING       \* evaluated here, outside the Serialize override: an evaluation error (overflow) is then TLC's, not a silent FALSE
           /\ Write([tid |-> T.id, kind |-> "final", l |-> 0, nrej |-> IF Clause = "" THEN 0 ELSE 1, clause |-> Clause,
                     status |-> "pairwise", rule |-> "pairwise", flags |-> <<>>])
           /\ done' = TRUE /\ UNCHANGED tid
TSpec == TInit /\ [][Advance]_<<tid, done>>
=============================================================================
