------------------------------ MODULE MC_Pairwise ------------------------------
(* Spec-level facts about dominating tiers (C06) on every bag of <= MaxBallots   *)
(* untied partial rankings: the declarative Smith decomposition has the three    *)
(* stated properties and equals the implementation-shaped reach-count grouping.  *)
EXTENDS Pairwise, TLC
CONSTANTS Cand, MaxBallots, MaxW
VARIABLES bag
Untieds(C) == UNION { {s \in [1..k -> C] : \A i, j \in 1..k : i # j => s[i] # s[j]} : k \in 1..Cardinality(C) }
Rankings == {Singles(s) : s \in Untieds(Cand)}
Init == bag = NoBallots
Add == /\ Cardinality(DOMAIN bag) < MaxBallots
       /\ \E r \in Rankings \ DOMAIN bag, w \in 1..MaxW : bag' = [x \in DOMAIN bag \cup {r} |-> IF x = r THEN R(w) ELSE bag[x]]
Spec == Init /\ [][Add]_bag
TiersHaveProperties == TiersOK(bag, Tiers(bag, Cand), Cand)
TiersAgree == Tiers(bag, Cand) = TiersByReach(bag, Cand, Cand)
TopIsSmith == Tiers(bag, Cand)[1] = Smith(bag, Cand)
CondorcetIffSingleton == HasCondorcetWinner(bag, Cand) <=> Cardinality(Tiers(bag, Cand)[1]) = 1
(* cycles exist exactly when some dominating tier has more than one member *)
CyclesIffBigTier == HasCycle(bag, Cand) <=> \E i \in 1..Len(Tiers(bag, Cand)) : Cardinality(Tiers(bag, Cand)[i]) > 1
MarginAntisymmetric == \A a, b \in Cand : Margin(bag, a, b) = RNeg(Margin(bag, b, a))
=============================================================================
