--------------------------- MODULE ProfileADTTrace ---------------------------
(* Call-level trace validation for C11 (Ballot / PreferenceProfile values) and  *)
(* C12 (ballot-editing utilities).  One trace = one operation of the real code  *)
(* on concrete values:                                                          *)
(*    op      name of the operation                                             *)
(*    ins     the input profiles as *sequences* of ballots {r, s, w}; for the   *)
(*            order-independence clauses the same multiset in 2-3 orders        *)
(*    x, form, condense, lzw, cands, candlist, map, exact, voters : arguments   *)
(*    outs    projected results {err, bl, nb, tw, cast, cands, voters}          *)
(*    bools, stored : observations that are booleans / large exact rationals    *)
(* The spec computes the abstract result from ProfileADT.tla and names the      *)
(* failing clause; "" = accepted.  Skeleton: ScoringTrace.tla.                  *)
EXTENDS ProfileADT, Json, IOUtils, TLC
VARIABLES tid, done
Traces == ndJsonDeserialize(IOEnv.TRACE_FILE)
T == Traces[tid]
Write(rec) == Serialize(ToJson(rec) \o "\n", IOEnv.VERDICT_FILE,
                        [format |-> "TXT", charset |-> "UTF-8", openOptions |-> <<"WRITE", "CREATE", "APPEND">>]).exitValue = 0
SetSeq(js) == [i \in 1..Len(js) |-> ToSet(js[i])]
ContOf(b) == Cont(SetSeq(b.r), {<<x[1], Rat2(x[2])>> : x \in ToSet(b.s)})
ProfOf(js) == [i \in 1..Len(js) |-> [c |-> ContOf(js[i]), w |-> Rat2(js[i].w)]]
In(i) == ProfOf(T.ins[i])
Out(i) == ProfOf(T.outs[i].bl)
NIn == Len(T.ins)
NOut == Len(T.outs)
C == ToSet(T.cands)
X == ToSet(T.x)
AnyErr == \E i \in 1..NOut : T.outs[i].err # ""
FirstErr == T.outs[CHOOSE i \in 1..NOut : T.outs[i].err # "" /\ \A j \in 1..(i-1) : T.outs[j].err = ""].err
NoDup(s) == Len(s) = Cardinality(ToSet(s))
(* C11: ballot count, total weight and cast-candidate set equal what the ballots imply *)
DerivedOK(o) == LET P == ProfOf(o.bl) IN
   /\ o.nb = NumBallots(P) /\ Rat2(o.tw) = TotalWt(P) /\ ToSet(o.cast) = CastCands(P) /\ NoDup(o.cast)
Mixed(P) == IF MixedScored(P) THEN "/MixedScored" ELSE ""
ScoresPositive(P) == \A i \in DOMAIN P : \A x \in P[i].c.s : x[2] # R(0)

(* ------------------------------------------------------------------ C11 *)
(* exactness: inputs (kind, p, q); every kind must be stored as exactly p/q, zero scores dropped *)
ExactClause ==
  LET w == T.exact[1]
      sc == {T.exact[i] : i \in 2..Len(T.exact)}
      wantS == {<<e.c, Norm(e.p, e.q)>> : e \in {e \in sc : e.p # 0}}
      gotW == {<<e.n, e.d>> : e \in {e \in ToSet(T.stored) : e.c = ""}}
      gotS == {<<e.c, <<e.n, e.d>>>> : e \in {e \in ToSet(T.stored) : e.c # ""}}
  IN IF AnyErr THEN "Error:" \o FirstErr
     ELSE IF gotW # {Norm(w.p, w.q)} THEN "Exact:Weight:" \o w.k
     ELSE IF gotS # wantS THEN "Exact:Scores"
     ELSE IF ~(\A i \in 1..Len(T.bools) : T.bools[i]) THEN "Exact:Type"         \* stored values are Fraction instances
     ELSE ""
ImmutableClause == IF \A i \in 1..Len(T.bools) : T.bools[i] THEN "" ELSE "Immutable"
ProfileClause ==
  LET o == T.outs[1]  P == In(1) IN
  IF ~NoDup(T.candlist) THEN (IF o.err = "ValueError" THEN "" ELSE IF o.err = "" THEN "Profile:DuplicatesAccepted" ELSE "Error:" \o o.err)
  ELSE IF o.err # "" THEN "Error:" \o o.err
  ELSE IF Out(1) # P THEN "Profile:Ballots"
  ELSE IF ~DerivedOK(o) THEN "Derived"
  ELSE IF Len(T.candlist) > 0 /\ o.cands # T.candlist THEN "Profile:Candidates"
  ELSE IF Len(T.candlist) = 0 /\ (ToSet(o.cands) # CastCands(P) \/ ~NoDup(o.cands)) THEN "Profile:Candidates"
  ELSE ""
(* outs[1..n] = condense of order 1..n, outs[n+1] = condense(condense(order 1)) *)
CondenseClause ==
  LET n == NIn  sfx == Mixed(In(1)) IN
  IF AnyErr THEN "Error:" \o FirstErr
  ELSE IF \E i \in 2..n : PBag(In(i)) # PBag(In(1)) \/ Len(In(i)) # Len(In(1)) THEN "Harness:NotAPermutation"
  ELSE IF \E i \in 1..(n+1) : ~Distinct(Out(i)) THEN "Condense:NotDistinct" \o sfx
  ELSE IF \E i \in 2..n : PBag(Out(i)) # PBag(Out(1)) THEN "Condense:OrderDependent" \o sfx
  ELSE IF PBag(Out(1)) # PBag(In(1)) THEN "Condense:Weights" \o sfx
  ELSE IF PBag(Out(n+1)) # PBag(Out(1)) \/ Len(Out(n+1)) # Len(Out(1)) THEN "Condense:Idempotent" \o sfx
  ELSE IF \E i \in 1..(n+1) : ~ScoresPositive(Out(i)) THEN "Exact:ZeroScoreKept"
  ELSE IF \E i \in 1..(n+1) : ~DerivedOK(T.outs[i]) THEN "Derived"
  ELSE ""
(* ins = L, R; bools = <<L == R, R == L, L != R>> *)
EqClause ==
  LET e == ProfileEq(In(1), In(2))
      sfx == IF MixedScored(In(1)) \/ MixedScored(In(2)) THEN "/MixedScored" ELSE "" IN
  IF AnyErr THEN "Error:" \o FirstErr
  ELSE IF T.bools[1] # T.bools[2] THEN "Eq:Asymmetric" \o sfx
  ELSE IF T.bools[1] # e THEN (IF e THEN "Eq:EqualJudgedDifferent" ELSE "Eq:DifferentJudgedEqual") \o sfx
  ELSE IF T.bools[3] # ~e THEN "Eq:Ne" \o sfx
  ELSE ""
(* outs = <<L + R, R + L>>; bools[1] = operands unchanged *)
AddClause ==
  LET want == PBagAdd(PBag(In(1)), PBag(In(2))) IN
  IF AnyErr THEN "Error:" \o FirstErr
  ELSE IF PBag(Out(1)) # want \/ PBag(Out(2)) # want \/ want # PBag(ProfileAdd(In(1), In(2))) THEN "Add"
  ELSE IF ~DerivedOK(T.outs[1]) \/ ~DerivedOK(T.outs[2]) THEN "Derived"
  ELSE IF ~T.bools[1] THEN "Immutable"
  ELSE ""
(* for every order i: outs[3i-2] = to_ballot_dict, outs[3i-1] = to_ranking_dict, outs[3i] = to_scores_dict *)
DictClause ==
  LET P == In(1)  sfx == Mixed(P) IN
  IF AnyErr THEN "Error:" \o FirstErr
  ELSE IF \E i \in 1..NIn : PBag(Out(3*i - 2)) # PBag(P) \/ ~Distinct(Out(3*i - 2)) THEN "Dict:Ballot" \o sfx
  ELSE IF \E i \in 1..NIn : PBag(Out(3*i - 1)) # PBag(DropScores(P)) THEN "Dict:Ranking"
  ELSE IF \E i \in 1..NIn : PBag(Out(3*i)) # PBag(DropRanking(P)) THEN "Dict:Scores"
  ELSE ""

(* ------------------------------------------------------------------ C12 *)
RanklessErrOK(P, err) == err = "TypeError" /\ HasRankless(P)      \* the documented rejection of ballots without a ranking
OutRankings(O) == {O[i].c.r : i \in {j \in DOMAIN O : O[j].w # R(0)}}
RemoveCandClause ==
  LET P == In(1)  E == RemoveCandsP(P, X)  O == Out(1)  o == T.outs[1] IN
  IF o.err # "" THEN (IF T.form = "ballot" /\ Len(E) = 0 THEN "RemoveCand:ErrorOnExhausted" ELSE "Error:" \o o.err)
  ELSE IF (\E i \in DOMAIN O : ContCands(O[i].c) \cap X # {}) \/ ToSet(o.cands) \cap X # {} THEN "RemoveCand:Mentions"
  ELSE IF T.form = "ballot" /\ Len(O) # 1 THEN "RemoveCand:Form"
  ELSE IF ~(OutRankings(O) \subseteq ({E[i].c.r : i \in DOMAIN E} \cup {<<>>})) THEN "RemoveCand:Order"
  ELSE IF RankBagAll(O) # RankBagAll(E) THEN "RemoveCand:Weights"
  ELSE IF (~T.condense \/ ~HasScores(P)) /\ PBag(O) # PBag(E) THEN "RemoveCand:Scores"
  ELSE IF T.condense /\ ~HasScores(P) /\ ~Distinct(O) THEN "RemoveCand:NotCondensed"
  ELSE IF T.form = "profile" /\ ~DerivedOK(o) THEN "Derived"
  ELSE ""
RankClause(name, want, P, O, o) ==       \* shared shape: compare ranking bags, name the first thing that is wrong
  IF o.err # "" THEN (IF RanklessErrOK(P, o.err) THEN "" ELSE "Error:" \o o.err)
  ELSE IF ~(DOMAIN RB(O) \subseteq DOMAIN want) THEN name \o ":Order"
  ELSE IF RB(O) # want THEN name \o ":Weights"
  ELSE ""
Ranked(P) == SelectSeq(P, LAMBDA b : b.c.r # <<>>)
AddMissingClause ==
  LET P == In(1)  O == Out(1)  o == T.outs[1] IN
  IF o.err = "" /\ (\E i \in DOMAIN O : O[i].w # R(0) /\ Listed(O[i].c.r) # C) THEN "AddMissing:Missing"
  ELSE RankClause("AddMissing", AddMissing(RB(P), C), P, O, o)
ExpandBallotClause ==
  LET P == In(1)  r == P[1].c.r  w == P[1].w  O == Out(1)  o == T.outs[1]  bi == RB(P)  bo == RB(O) IN
  IF o.err # "" THEN (IF RanklessErrOK(P, o.err) THEN "" ELSE "Error:" \o o.err)
  ELSE IF r = <<>> THEN "ExpandTies:RanklessAccepted"
  ELSE IF {O[i].c.r : i \in DOMAIN O} # Linearise(r) \/ Len(O) # NumLin(r) THEN "ExpandTies:Orders"      \* every linear order, each once
  ELSE IF \E i \in DOMAIN O : O[i].w # RDiv(w, R(NumLin(r))) THEN "ExpandTies:Weights"
  ELSE IF Fpv(bo, C) # Fpv(bi, C) \/ Borda(bo, C) # Borda(bi, C) \/ (\E a, b \in C : Margin(bo, a, b) # Margin(bi, a, b)) THEN "ExpandTies:Totals"
  ELSE ""
ResolveTiesClause ==
  LET P == In(1)  O == Out(1)  o == T.outs[1]  bi == RB(P)  bo == RB(O)
      base == RankClause("ResolveTies", ExpandTies(bi), P, O, o) IN
  IF base # "" \/ o.err # "" THEN base
  ELSE IF \E r \in DOMAIN bo : ~Untied(r) THEN "ResolveTies:StillTied"
  ELSE IF Fpv(bo, C) # Fpv(bi, C) \/ Borda(bo, C) # Borda(bi, C) \/ (\E a, b \in C : Margin(bo, a, b) # Margin(bi, a, b)) THEN "ResolveTies:Totals"
  ELSE ""
RemoveNoncandsClause ==
  LET P == In(1)  O == Out(1)  o == T.outs[1]  w1 == RemoveNoncands(RB(P), X)  w2 == RemoveNoncandsDedup(RB(P), X) IN
  IF o.err = "" /\ (\E i \in DOMAIN O : Listed(O[i].c.r) \cap X # {}) THEN "RemoveNoncands:Mentions"
  ELSE IF o.err = "" /\ RB(O) = w2 THEN ""                 \* repeated candidates may or may not be collapsed: the statement does not say
  ELSE RankClause("RemoveNoncands", w1, P, O, o)
DedupClause ==
  LET P == In(1)  O == Out(1)  o == T.outs[1] IN
  IF o.err = "" /\ (\E i \in DOMAIN O : ~NoRepeat(O[i].c.r)) THEN "Dedup:Repeats"
  ELSE RankClause("Dedup", Deduplicate(RB(P)), P, O, o)
RemoveEmptyClause ==
  LET P == In(1)  O == Out(1)  o == T.outs[1] IN
  IF o.err # "" THEN "Error:" \o o.err
  ELSE IF \E i \in DOMAIN O : O[i].c.r = <<>> THEN "RemoveEmpty:EmptyKept"
  ELSE IF RB(O) # RB(P) \/ TotalWt(O) # TotalWt(Ranked(P)) THEN "RemoveEmpty:Weights"
  ELSE ""
(* map = <<ranking, image>> pairs of the (harness-supplied) cleaning function *)
MapAt(r) == LET m == {y \in ToSet(T.map) : SetSeq(y[1]) = r} IN SetSeq((CHOOSE y \in m : TRUE)[2])
CleanProfileClause ==
  LET P == In(1)  O == Out(1)  o == T.outs[1] IN
  RankClause("CleanProfile", ImageBag(RB(P), MapAt), P, O, o)
(* ins[1] = the ballots to merge (same ranking), voters[i] their voter sets, outs[1] = the merged ballot *)
MergeClause ==
  LET P == In(1)  O == Out(1)  o == T.outs[1] IN
  IF o.err # "" THEN "Error:" \o o.err
  ELSE IF Len(O) # 1 \/ O[1].c.r # P[1].c.r THEN "Merge:Ranking"
  ELSE IF O[1].w # MergeWeight(P) THEN "Merge:Weight"
  ELSE IF ToSet(o.voters) # UNION {ToSet(T.voters[i]) : i \in 1..Len(T.voters)} THEN "Merge:Voters"
  ELSE ""

Clause ==
  CASE T.op = "ballot"          -> ExactClause
    [] T.op = "immutable"       -> ImmutableClause
    [] T.op = "profile"         -> ProfileClause
    [] T.op = "condense"        -> CondenseClause
    [] T.op = "eq"              -> EqClause
    [] T.op = "add"             -> AddClause
    [] T.op = "dicts"           -> DictClause
    [] T.op = "remove_cand"     -> RemoveCandClause
    [] T.op = "add_missing"     -> AddMissingClause
    [] T.op = "expand_ballot"   -> ExpandBallotClause
    [] T.op = "resolve_ties"    -> ResolveTiesClause
    [] T.op = "remove_noncands" -> RemoveNoncandsClause
    [] T.op = "dedup"           -> DedupClause
    [] T.op = "remove_empty"    -> RemoveEmptyClause
    [] T.op = "clean_profile"   -> CleanProfileClause
    [] T.op = "merge"           -> MergeClause
    [] OTHER                    -> "Harness:UnknownOp"

TInit == tid \in 1..Len(Traces) /\ done = FALSE
Advance == /\ ~done
           /\ Clause \in STRING       \* evaluated here, outside the Serialize override: an evaluation error (overflow) is then TLC's, not a silent FALSE
           /\ Write([tid |-> T.id, kind |-> "final", l |-> 0, nrej |-> IF Clause = "" THEN 0 ELSE 1, clause |-> Clause,
                     status |-> T.op, rule |-> T.op, flags |-> <<>>])
           /\ done' = TRUE /\ UNCHANGED tid
TSpec == TInit /\ [][Advance]_<<tid, done>>
=============================================================================
