----------------------------- MODULE ScoringTrace -----------------------------
(* Call-level trace validation for the scoring utilities (C04): every recorded *)
(* call of score_profile_from_rankings / first_place_votes / mentions /         *)
(* borda_scores / score_dict_to_ranking on the real code must return exactly    *)
(* what the definitions of Scoring.tla give.  One trace = one call.             *)
(* Pattern shared by all call-level trace specs of this framework:              *)
(*   TInit picks a trace, Advance writes exactly one "final" verdict line.      *)
EXTENDS Scoring, Json, IOUtils, TLC
VARIABLES tid, done
Traces == ndJsonDeserialize(IOEnv.TRACE_FILE)
T == Traces[tid]
SetSeq(js) == [i \in 1..Len(js) |-> ToSet(js[i])]
BagOf(js) == LET S == ToSet(js) IN [r \in {SetSeq(b.r) : b \in S} |-> Rat2((CHOOSE b \in S : SetSeq(b.r) = r).w)]
ScoresOf(js) == LET S == ToSet(js) IN [c \in {x[1] : x \in S} |-> Rat2((CHOOSE x \in S : x[1] = c)[2])]
VecOf(js) == [i \in 1..Len(js) |-> Rat2(js[i])]
Write(rec) == Serialize(ToJson(rec) \o "\n", IOEnv.VERDICT_FILE,
                        [format |-> "TXT", charset |-> "UTF-8", openOptions |-> <<"WRITE", "CREATE", "APPEND">>]).exitValue = 0

C == ToSet(T.cands)
Expected ==
  CASE T.op = "positional" -> Positional(BagOf(T.bag), C, VecOf(T.vec))
    [] T.op = "fpv"        -> FpvDef(BagOf(T.bag), C)
    [] T.op = "borda"      -> Borda(BagOf(T.bag), C)
    [] T.op = "mentions"   -> Mentions(BagOf(T.bag), C)
(* C04: the points handed out by each ballot sum to weight times the vector total *)
HandedOut == LET e == Expected IN SumRat(e, C)
VecSum == VecTotal(IF T.op = "positional" THEN VecOf(T.vec) ELSE IF T.op = "fpv" THEN <<R(1)>> ELSE BordaVec(Cardinality(C)), Cardinality(C))
(* ---- direct calls of the helpers behind "elect the top m": elect_cands_from_set_ranking and tiebroken_ranking ---- *)
TbScore == IF T.tb = "borda" THEN Borda(BagOf(T.bag), C) ELSE Fpv(BagOf(T.bag), C)        \* read only for tb in {borda, first_place}
ElectClause ==
  LET rk   == SetSeq(T.ranking)
      outs == ElectTop(rk, T.m, T.tb, TbScore)
      tbs  == IF T.tied = <<>> THEN {} ELSE {<<ToSet(T.tied), SetSeq(T.order)>>}
  IN IF \E o \in outs : o.err
     THEN (IF T.error = "ValueError" THEN "" ELSE IF T.error = "" THEN "TieOrSeatsNotRefused" ELSE "Error:" \o T.error)
     ELSE IF T.error # "" THEN "Error:" \o T.error
     ELSE IF \E o \in outs : o.elected = SetSeq(T.elected) /\ o.remaining = SetSeq(T.remaining) /\ o.tbs = tbs THEN "" ELSE "Elect"
(* a fully broken ranking: a linear extension of the given ranking of sets in which every tied set is replaced by one of its legal   *)
(* resolutions (any order for "random", score-descending otherwise), and the dictionary maps exactly the tied sets to what replaced them *)
Seg(rk, res, i) == [k \in 1..Cardinality(rk[i]) |-> res[CardUpTo(rk, i-1) + k]]
TiebrokenClause ==
  LET rk == SetSeq(T.ranking)
      res == SetSeq(T.result)
      multi == {i \in 1..Len(rk) : Cardinality(rk[i]) > 1}
      dict == {<<ToSet(d.tied), SetSeq(d.order)>> : d \in ToSet(T.dict)}
  IN IF T.error # "" THEN "Error:" \o T.error
     ELSE IF Len(res) # NumCands(rk) \/ \E i \in 1..Len(res) : Cardinality(res[i]) # 1 THEN "NotLinear"
     ELSE IF \E i \in 1..Len(rk) : UNION Range(Seg(rk, res, i)) # rk[i] THEN "NotAnExtension"
     ELSE IF T.tb # "random" /\ \E i \in multi : ~Desc([k \in 1..Cardinality(rk[i]) |-> CHOOSE c \in Seg(rk, res, i)[k] : TRUE], TbScore) THEN "NotByScore"
     ELSE IF dict # {<<rk[i], Seg(rk, res, i)>> : i \in multi} \/ Cardinality(dict) # Len(T.dict) THEN "Dict"
     ELSE ""
Clause ==
  IF T.op = "elect" THEN ElectClause
  ELSE IF T.op = "tiebroken" THEN TiebrokenClause
  ELSE IF T.op = "ranking" THEN        \* score_dict_to_ranking: groups of equal score, high to low (or low to high)
       LET sc == ScoresOf(T.scores)  D == DOMAIN sc  g == Group(sc, D)
           want == IF T.high THEN g ELSE [i \in 1..Len(g) |-> g[Len(g) + 1 - i]]
       IN IF SetSeq(T.result) = want THEN "" ELSE "Ranking"
  ELSE IF T.error # "" THEN
       (IF T.op = "positional" /\ ~ValidVec(VecOf(T.vec)) /\ T.error = "ValueError" THEN "" ELSE "Error:" \o T.error)
  ELSE IF T.op = "positional" /\ ~ValidVec(VecOf(T.vec)) THEN "InvalidVectorAccepted"
  ELSE IF ScoresOf(T.result) # Expected THEN "Scores"
  ELSE IF T.op # "mentions" /\ HandedOut # RMul(Total(BagOf(T.bag)), VecSum) THEN "HandedOut"
  ELSE ""

TInit == tid \in 1..Len(Traces) /\ done = FALSE
Advance == /\ ~done
           /\ Clause \in STRING       \* evaluated here, outside the Serialize override: an evaluation error (overflow) is then TLC's, not a silent FALSE
           /\ Write([tid |-> T.id, kind |-> "final", l |-> 0, nrej |-> IF Clause = "" THEN 0 ELSE 1, clause |-> Clause,
                     status |-> T.op, rule |-> T.op, flags |-> <<>>])
           /\ done' = TRUE /\ UNCHANGED tid
TSpec == TInit /\ [][Advance]_<<tid, done>>
=============================================================================
