------------------------------ MODULE MC_GenDist ------------------------------
(* Spec-level facts about the draw machines of GenDist.tla (C16), checked for every parameter set of a *)
(* bounded space.  The parameters are built by actions:                                               *)
(*   SetCoh   picks the voter bloc's cohesion  q/4,  q in 0..4   (slates X = own, Y = opposing)       *)
(*   AddCand  gives the next candidate (A in X, C in Y, B in X, D in Y) an integer support 0..MaxS;   *)
(*            A and C get a positive one (an interval needs a supported candidate)                    *)
(* Every invariant is evaluated in every reachable state with at least one candidate per slate, so it *)
(* covers the slate shapes 1+1, 2+1 and 2+2, candidates without support, and cohesion 0 and 1.        *)
EXTENDS GenDist
CONSTANTS MaxS
VARIABLES sup, cq

Order == <<"A", "C", "B", "D">>
SlateX == {"A", "B"}
Init == sup = <<>> /\ cq = -1
SetCoh == /\ cq = -1
          /\ \E q \in 0..4 : cq' = q
          /\ UNCHANGED sup
AddCand == /\ cq >= 0
           /\ Len(sup) < Len(Order)
           /\ \E v \in (IF Len(sup) < 2 THEN 1..MaxS ELSE 0..MaxS) : sup' = Append(sup, v)
           /\ UNCHANGED cq
Spec == Init /\ [][SetCoh \/ AddCand]_<<sup, cq>>

Ready == Len(sup) >= 2
Added == {Order[i] : i \in 1..Len(sup)}
SupOf(c) == sup[CHOOSE i \in 1..Len(sup) : Order[i] = c]
iv  == ("X" :> [c \in Added \cap SlateX |-> R(SupOf(c))]) @@ ("Y" :> [c \in Added \ SlateX |-> R(SupOf(c))])
c   == Norm(cq, 4)
coh == ("X" :> c) @@ ("Y" :> RSub(R(1), c))
W   == Combined(iv, coh)
cnt == SlateCounts(iv)
(* the name-Bradley-Terry facts are about an arbitrary weight vector: the supports themselves (the combined interval is *)
(* just another weight vector, with larger numbers)                                                                  *)
Wp  == [x \in Added |-> R(SupOf(x))]
Hist == (<<"W", "C">> :> 3) @@ (<<"W", "W", "C">> :> 1) @@ (<<"W">> :> 2) @@ (<<"C", "W", "C">> :> 1) @@ (<<"C", "C", "W", "W">> :> 2)

(* ---- each law is a probability law on its support ---- *)
PLSumsToOne == Ready => \A k \in 1..Cardinality(Supp(W)) : RSumSet(PrefixesOf(Supp(W), k), LAMBDA b : NamePLProb(b, iv, coh, k)) = R(1)
CumulativeSumsToOne == Ready => \A k \in 1..3 : RSumSet(CumSupport(iv, coh, k), LAMBDA p : CumProb(p, iv, coh, k)) = R(1)
(* the expected number of points of a candidate is  k * its share *)
CumulativeMean == Ready => \A k \in 1..3 : \A x \in Supp(W) :
     RSumSet({p \in CumSupport(iv, coh, k) : x \in DOMAIN p}, LAMBDA p : RMul(R(p[x]), CumProb(p, iv, coh, k))) = RMul(R(k), NormW(W)[x])
SlatePLTypeSumsToOne == Ready => RSumSet(Arrs(cnt), LAMBDA t : SPLTypeProb(t, coh, cnt)) = R(1)
(* the first slot goes to a slate with probability its cohesion *)
SlatePLFirstSlot == Ready => \A s \in {"X", "Y"} : RSumSet({t \in Arrs(cnt) : t[1] = s}, LAMBDA t : SPLTypeProb(t, coh, cnt)) = coh[s]
SlatePLSumsToOne == Ready => RSumSet(SlateBallots(iv), LAMBDA b : SlatePLProb(b, iv, coh)) = R(1)
SlateBTTypeSumsToOne == Ready => RSumSet(Arrs(cnt), LAMBDA t : SBTTypeProb(t, "X", c, cnt)) = R(1)
SlateBTSumsToOne == Ready => RSumSet(SlateBallots(iv), LAMBDA b : SlateBTProb(b, iv, "X", c)) = R(1)
(* one candidate per slate: own first with probability cohesion, in both slate models *)
OneEach == (Ready /\ cnt["X"] = 1 /\ cnt["Y"] = 1) => SBTTypeProb(<<"X", "Y">>, "X", c, cnt) = c /\ SPLTypeProb(<<"X", "Y">>, coh, cnt) = c
NameBTSumsToOne == Ready => RSumSet(PermsOf(Supp(Wp)), LAMBDA b : NameBTProbW(b, Wp)) = R(1)
(* the integer form used for the table is the law "product over ordered pairs of x/(x+y)" of the statement *)
(* (the pair form needs numbers beyond TLC's 32 bit integers for four candidates with supports above 3)    *)
NameBTFormsAgree == (Ready /\ (Cardinality(Supp(Wp)) <= 3 \/ \A i \in DOMAIN sup : sup[i] <= 3)) =>
                       \A b \in PermsOf(Supp(Wp)) : NameBTProbW(b, Wp) = NameBTProbPairs(b, Wp)
NameBTTwo == (Ready /\ Cardinality(Supp(Wp)) = 2) =>
     \A b \in PermsOf(Supp(Wp)) : NameBTProbW(b, Wp) = RDiv(Wp[b[1]], RAdd(Wp[b[1]], Wp[b[2]]))
(* and through the combined interval the law is the same function of the weights *)
(* (where the combined interval, scaled to integers, stays small enough for TLC's 32 bit integers) *)
NameBTCombined == (Ready /\ \A x \in DOMAIN W : IntW(W)[x] <= 12) => \A b \in PermsOf(Supp(W)) : NameBTProb(b, iv, coh) = NameBTProbW(b, W)
ICSumsToOne == Ready => RSumSet(PermsOf(AllCands(iv)), LAMBDA b : ICProb(b, AllCands(iv))) = R(1)
ACSumsToOne == Ready => \A kind \in {"bloc", "cross"} : RSumSet(ACBallots(kind, iv, "X", "Y"), LAMBDA b : ACProb(b, kind, iv, "X", "Y")) = R(1)
CambridgeSumsToOne == Ready => \A kind \in {"bloc", "cross"} :
     RSumSet(CamBallots(kind, iv, "X", "Y", c, Hist, "W", "C"), LAMBDA b : CamProb(b, kind, iv, "X", "Y", c, Hist, "W", "C")) = R(1)

(* ---- Plackett-Luce restricted to the slates is Plackett-Luce on each slate, independently ---- *)
PLRestrictedToSlates == (Ready /\ 0 < cq /\ cq < 4) =>
  \A o \in PermsOf(Supp(iv["X"])), p \in PermsOf(Supp(iv["Y"])) :
     RSumSet({b \in PermsOf(Supp(W)) : RestrictTo(b, DOMAIN iv["X"]) = o /\ RestrictTo(b, DOMAIN iv["Y"]) = p}, LAMBDA b : PLProb(b, W))
       = RMul(PLFull(o, iv["X"]), PLFull(p, iv["Y"]))

(* ---- profiles of two independent ballots: the bag law sums to one ---- *)
BagLawSumsToOne == Ready =>
  LET S == SlateBallots(iv)
  IN RSumSet({{x, y} : x \in S, y \in S},
             LAMBDA B : LET x == CHOOSE e \in B : TRUE  y == IF Cardinality(B) = 1 THEN x ELSE CHOOSE e \in B : e # x
                        IN BagP(<<x, y>>, LAMBDA s : IndepP(s, LAMBDA i, b : SlatePLProb(b, iv, coh)))) = R(1)

(* ---- the two Metropolis chains: detailed balance, hence the Bradley-Terry table is stationary; irreducible ---- *)
NameBTChain == (Ready /\ Cardinality(Supp(Wp)) >= 2) =>
  LET pi == NameBTpi(Wp)  K == Metropolis(pi) IN
  RowsSumToOne(K) /\ DetailedBalance(K, pi) /\ Stationary(K, pi) /\ Irreducible(K, pi)
SlateBTChain == Ready =>
  LET pi == SlateBTpi("X", c, cnt)  K == Metropolis(pi) IN
  RowsSumToOne(K) /\ DetailedBalance(K, pi) /\ Stationary(K, pi) /\ Irreducible(K, pi)
(* the stationary weight is the table of the exact sampler *)
ChainTargetsAreTheTables == Ready =>
  /\ \A t \in Arrs(cnt) : SBTTypeProb(t, "X", c, cnt) = RDiv(SlateBTpi("X", c, cnt)[t], RSumF(SlateBTpi("X", c, cnt)))
  /\ \A b \in PermsOf(Supp(Wp)) : NameBTProbW(b, Wp) = RDiv(NameBTpi(Wp)[b], RSumF(NameBTpi(Wp)))

(* ---- Huntington-Hill on the four voter types of a two-bloc AlternatingCrossover / Cambridge electorate ---- *)
HHTotals == Ready => \A n \in 1..6 :
  LET v == <<RMul(c, Norm(1, 2)), RMul(RSub(R(1), c), Norm(1, 2)), Norm(3, 8), Norm(1, 8)>> IN
  \A a \in HH(v, n) : /\ a[1] + a[2] + a[3] + a[4] = n
                      /\ \A i \in 1..4 : v[i][1] = 0 => a[i] = 0
                      /\ n >= 4 => \A i \in 1..4 : v[i][1] > 0 => a[i] >= 1
=============================================================================
