------------------------------- MODULE Rating -------------------------------
(* Score-ballot elections (C05): GeneralRating and its parameterisations       *)
(* Rating, Limited, Cumulative, Approval, BlocPlurality.                       *)
(* A score ballot is a function  candidate -> non-zero rational  (zero scores  *)
(* are absent; the empty function is "no scores"); a score profile is a bag    *)
(* score ballot -> positive rational weight.                                   *)
EXTENDS Scoring
NoScores == <<>>
BallotSum(b) == SumRat(b, DOMAIN b)
(* the per-candidate limit L and the budget k (hasK = FALSE: no budget) each rule class uses *)
Limits(c) == CASE c.rule = "GeneralRating" -> [L |-> c.L, hasK |-> c.hasK, k |-> c.k]
               [] c.rule = "Rating"        -> [L |-> c.L, hasK |-> FALSE, k |-> R(0)]
               [] c.rule = "Limited"       -> [L |-> c.k, hasK |-> TRUE, k |-> c.k]
               [] c.rule = "Cumulative"    -> [L |-> R(c.m), hasK |-> TRUE, k |-> R(c.m)]
               [] c.rule = "Approval"      -> [L |-> R(1), hasK |-> FALSE, k |-> R(0)]
               [] c.rule = "BlocPlurality" -> [L |-> R(1), hasK |-> TRUE, k |-> IF c.hasK THEN c.k ELSE R(c.m)]
(* C05: a profile is accepted iff every ballot carries scores, all are non-negative, none exceeds L, no ballot sums above k *)
BallotOK(b, lim) == /\ b # NoScores
                    /\ \A x \in DOMAIN b : ~RLt(b[x], R(0)) /\ RLe(b[x], lim.L)
                    /\ (lim.hasK => RLe(BallotSum(b), lim.k))
Accepts(sp, c) == \A b \in DOMAIN sp : BallotOK(b, Limits(c))
(* removing elected candidates from score ballots; ballots left without scores disappear *)
StripScores(b, X) == [x \in DOMAIN b \ X |-> b[x]]
RemoveScored(sp, X) ==
  LET imgs == {StripScores(b, X) : b \in DOMAIN sp} \ {NoScores}
  IN [q \in imgs |-> SumRat(sp, {b \in DOMAIN sp : StripScores(b, X) = q})]
(* the one election round: outcomes of electing the top m totals *)
Outcomes(sp, C, c) == ElectTop(Group(ScoreTotals(sp, C), C), c.m, c.tb, ScoreTotals(sp, C))
=============================================================================
