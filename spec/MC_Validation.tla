----------------------------- MODULE MC_Validation -----------------------------
(* The decision table is total and "ok" is returned exactly when no documented   *)
(* precondition is violated, on a grid of requests around every boundary.        *)
EXTENDS Validation, TLC
VARIABLES q
Rules == RankRules \cup RatingRules
Profs == {<<>>, [r \in {<<{"A"}, {"B"}>>} |-> R(1)], [r \in {<<{"A", "B"}>>} |-> R(1)], [r \in {<<{"A"}>>} |-> <<1,2>>], [r \in {<<{"A"}>>} |-> <<5,2>>]}
SProfs == {<<>>, [b \in {[c \in {"A"} |-> R(1)]} |-> R(1)], [b \in {[c \in {"A"} |-> R(2)]} |-> R(1)], [b \in {[c \in {"A"} |-> <<-1,2>>]} |-> R(1)]}
Init == q \in [xfer : {"fractional", "random"}, rule : Rules, n : {2, 3}, m : 0..4, m1 : 0..4, quota : {"droop", "bogus"}, vec : {<<R(2), R(1)>>, <<R(1), R(2)>>, <<R(-1)>>},
               noranking : BOOLEAN, prof : Profs, unscored : {0, 1}, sprof : SProfs, gen : {""},
               rcfg : {[rule |-> "GeneralRating", m |-> 1, L |-> R(1), hasK |-> TRUE, k |-> R(1), tb |-> "none"]}]
Spec == Init /\ [][UNCHANGED q]_q
Q == [q EXCEPT !.rcfg = [q.rcfg EXCEPT !.rule = IF q.rule \in RatingRules THEN q.rule ELSE "GeneralRating", !.m = q.m]]
Total_ == Expected(Q) # {} /\ Expected(Q) \subseteq {"ok", "TypeError", "ValueError"}
OkIffNoViolation == ("ok" \in Expected(Q)) <=> (~TypeViolation(Q) /\ ~ValueViolation(Q))
BoundaryAccepted == (Q.rule = "Plurality" /\ Q.m = Q.n /\ ~Q.noranking) => Expected(Q) = {"ok"}
RandomTransferRefusal == (Q.rule = "STV" /\ Q.xfer = "random" /\ Q.prof = [r \in {<<{"A"}>>} |-> <<5,2>>] /\ ~Q.noranking /\ Q.m = 1 /\ Q.quota = "droop")
                            => Expected(Q) = {"TypeError"}
BoundaryRefused == (Q.rule = "Plurality" /\ Q.m = Q.n + 1 /\ ~Q.noranking) => Expected(Q) = {"ValueError"}
=============================================================================
