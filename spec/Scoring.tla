------------------------------ MODULE Scoring ------------------------------
(* Positional scoring written from the statement of C04, the ranking a     *)
(* score function induces, and the relation "elect the top m of a ranking  *)
(* of sets, breaking only the set that straddles seat m".                  *)
EXTENDS Ballots

VecAt(vec, i) == IF i <= Len(vec) THEN vec[i] ELSE R(0)       \* short vectors are zero padded
RECURSIVE Before(_,_)
Before(r, i) == IF i <= 1 THEN 0 ELSE Cardinality(r[i-1]) + Before(r, i-1)
RECURSIVE SpanSum(_,_,_)
SpanSum(vec, start, k) == IF k = 0 THEN R(0) ELSE RAdd(VecAt(vec, start + k), SpanSum(vec, start, k-1))
(* points of candidate c on a complete(d) ranking r: the mean of the points its position spans *)
PtsIn(r, c, vec) == LET i == CHOOSE j \in 1..Len(r) : c \in r[j]
                        k == Cardinality(r[i])
                    IN RDiv(SpanSum(vec, Before(r, i), k), R(k))
(* C04: unlisted candidates share the remaining points equally == they are a last-place tie *)
Positional(p, C, vec) ==
  [c \in C |-> SumRat([r \in DOMAIN p |-> RMul(p[r], PtsIn(AddMissingR(r, C), c, vec))], DOMAIN p)]
FpvDef(p, C) == Positional(p, C, <<R(1)>>)                 \* the definition: vector (1, 0, 0, ...)
(* closed form used by the election actions (equal to FpvDef on every bag: checked by MC_Scoring) *)
Fpv(p, C)   == [c \in C |-> SumRat([r \in DOMAIN p |-> IF c \in r[1] THEN RDiv(p[r], R(Cardinality(r[1]))) ELSE R(0)],
                                    {r \in DOMAIN p : c \in r[1]})]
BordaVec(n) == [i \in 1..n |-> R(n + 1 - i)]
Borda(p, C) == Positional(p, C, BordaVec(Cardinality(C)))
Mentions(p, C) == [c \in C |-> SumRat(p, {r \in DOMAIN p : c \in Listed(r)})]
VecTotal(vec, n) == SpanSum(vec, 0, n)
ValidVec(vec) == /\ \A i \in 1..Len(vec) : ~RLt(vec[i], R(0))
                 /\ \A i \in 2..Len(vec) : RLe(vec[i], vec[i-1])

(* the ranking of sets induced by a score function on candidate set D, high to low *)
RECURSIVE Group(_,_)
Group(sc, D) == IF D = {} THEN <<>> ELSE
   LET top == {c \in D : \A d \in D : RLe(sc[d], sc[c])} IN <<top>> \o Group(sc, D \ top)
Desc(o, sc) == \A i, j \in 1..Len(o) : i < j => RLe(sc[o[j]], sc[o[i]])

RECURSIVE CardUpTo(_,_)
CardUpTo(rk, i) == IF i = 0 THEN 0 ELSE Cardinality(rk[i]) + CardUpTo(rk, i-1)
NumCands(rk) == CardUpTo(rk, Len(rk))
(* legal resolutions of a tied set T: tb = "random" any strict order; otherwise     *)
(* descending in the tiebreak score, arbitrary only among candidates equal on it.   *)
Resolutions(T, tb, sc) == {o \in Orders(T) : tb # "random" => Desc(o, sc)}
(* elect the top m of a ranking of sets.  Result: a set of outcomes; an outcome is   *)
(* a record; err = TRUE means "boundary tie, no tiebreak requested" (ValueError).    *)
ElectTop(rk, m, tb, sc) ==
  IF m < 1 \/ m > NumCands(rk)        \* seat count outside 1..number of candidates: refused (C20), same error record
  THEN {[err |-> TRUE, elected |-> <<>>, remaining |-> <<>>, tbs |-> {}]}
  ELSE
  LET i == CHOOSE j \in 1..Len(rk) : CardUpTo(rk, j) >= m /\ CardUpTo(rk, j-1) < m
  IN IF CardUpTo(rk, i) = m
     THEN {[err |-> FALSE, elected |-> SubSeq(rk, 1, i), remaining |-> SubSeq(rk, i+1, Len(rk)), tbs |-> {}]}
     ELSE IF tb = "none" THEN {[err |-> TRUE, elected |-> <<>>, remaining |-> <<>>, tbs |-> {}]}
     ELSE LET T == rk[i]  need == m - CardUpTo(rk, i-1) IN
          {[err |-> FALSE, elected   |-> SubSeq(rk, 1, i-1) \o Singles(SubSeq(o, 1, need)),
            remaining |-> Singles(SubSeq(o, need+1, Len(o))) \o SubSeq(rk, i+1, Len(rk)),
            tbs       |-> {<<T, Singles(o)>>}] : o \in Resolutions(T, tb, sc)}

(* score-ballot totals: a score ballot is a function cand -> positive Rat (zeros absent) *)
ScoreTotals(sp, C) == [c \in C |-> SumRat([b \in DOMAIN sp |-> IF c \in DOMAIN b THEN RMul(sp[b], b[c]) ELSE R(0)], DOMAIN sp)]
=============================================================================
