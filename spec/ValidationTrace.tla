--------------------------- MODULE ValidationTrace ---------------------------
(* Call-level trace validation for C20: one trace = one request to a           *)
(* constructor / helper of the real code and what happened (returned an        *)
(* object: "ok"; or the class of the exception; and whether any election round *)
(* had already been run when the error surfaced).                              *)
EXTENDS Validation, Json, IOUtils, TLC
VARIABLES tid, done
Traces == ndJsonDeserialize(IOEnv.TRACE_FILE)
T == Traces[tid]
SetSeq(js) == [i \in 1..Len(js) |-> ToSet(js[i])]
BagOf(js) == LET S == ToSet(js) IN [r \in {SetSeq(b.r) : b \in S} |-> Rat2((CHOOSE b \in S : SetSeq(b.r) = r).w)]
SBallot(js) == LET S == ToSet(js) IN [c \in {x[1] : x \in S} |-> Rat2((CHOOSE x \in S : x[1] = c)[2])]
SBagOf(js) == LET S == ToSet(js) IN [b \in {SBallot(x.s) : x \in S} |-> Rat2((CHOOSE x \in S : SBallot(x.s) = b).w)]
Write(rec) == Serialize(ToJson(rec) \o "\n", IOEnv.VERDICT_FILE,
                        [format |-> "TXT", charset |-> "UTF-8", openOptions |-> <<"WRITE", "CREATE", "APPEND">>]).exitValue = 0
Req == [xfer |-> T.xfer, rule |-> T.rule, n |-> T.n, m |-> T.m, m1 |-> T.m1, quota |-> T.quota, vec |-> [i \in 1..Len(T.vec) |-> Rat2(T.vec[i])],
        noranking |-> T.noranking, prof |-> BagOf(T.prof0), unscored |-> T.unscored, sprof |-> SBagOf(T.sprof0), gen |-> T.gen,
        rcfg |-> [rule |-> T.rule, m |-> T.m, L |-> Rat2(T.L), hasK |-> T.hasK, k |-> Rat2(T.k), tb |-> "none"]]
Clause ==
  LET exp == Expected(Req) IN
  IF T.outcome \in exp THEN ""
  ELSE IF T.outcome = "ok" THEN "Accepted:" \o (IF "ValueError" \in exp THEN "ValueError" ELSE "TypeError")
  (* a valid request refused with one of the two documented classes is a boundary error of the validation;   *)
  (* any *other* exception on a valid request is not a refusal at all -- C01 speaks about those              *)
  ELSE IF "ok" \in exp THEN (IF T.outcome \in {"TypeError", "ValueError"} THEN "Refused:" \o T.outcome ELSE "")
  ELSE "WrongClass:" \o T.outcome
TInit == tid \in 1..Len(Traces) /\ done = FALSE
Advance == /\ ~done
           /\ Clause \in STRING       \* evaluated here, outside the Serialize override: an evaluation error (overflow) is then TLC's, not a silent FALSE
           /\ Write([tid |-> T.id, kind |-> "final", l |-> 0, nrej |-> IF Clause = "" THEN 0 ELSE 1, clause |-> Clause,
                     status |-> T.rule, rule |-> T.rule, flags |-> <<>>])
           /\ done' = TRUE /\ UNCHANGED tid
TSpec == TInit /\ [][Advance]_<<tid, done>>
=============================================================================
