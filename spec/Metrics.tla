------------------------------ MODULE Metrics ------------------------------
(* The L_p distance between profiles and the ballot graph, written from the   *)
(* statement of C19.                                                          *)
(* A profile is a bag (Ballots.tla): ranking |-> positive rational.  Its      *)
(* distribution divides every weight by the total; the L_p distance is the    *)
(* p-norm of the difference of two distributions over the union of their      *)
(* supports.  Everything is an exact rational: L1 and Linf are distances,     *)
(* LpPow(p, q, k) is the k-th POWER of the L_k distance (roots are not        *)
(* rational; the root triangle inequality for k >= 2 is checked numerically   *)
(* by the harness on the code's own outputs).                                 *)
EXTENDS Ballots

Distribution(p) == [r \in DOMAIN p |-> RDiv(p[r], Total(p))]
At(d, r) == IF r \in DOMAIN d THEN d[r] ELSE R(0)
AbsDiff(p, q) == LET dp == Distribution(p)  dq == Distribution(q)
                 IN [r \in DOMAIN p \cup DOMAIN q |-> RAbs(RSub(At(dp, r), At(dq, r)))]
LpPow(p, q, k) == LET d == AbsDiff(p, q) IN SumRat([r \in DOMAIN d |-> RPow(d[r], k)], DOMAIN d)
L1(p, q) == LpPow(p, q, 1)
Linf(p, q) == LET d == AbsDiff(p, q) IN FoldSet(LAMBDA r, acc : RMax(d[r], acc), R(0), DOMAIN d)
SameDistribution(p, q) == Distribution(p) = Distribution(q)
Scale(p, k) == [r \in DOMAIN p |-> RMul(p[r], k)]

(* ----------------------------------------------------------------- ballot graph on n candidates 1..n *)
(* one node per ranking (injective sequence over 1..n) of length 1..n except length n-1 (a ballot      *)
(* listing n-1 candidates is the same ballot as its completion)                                        *)
RECURSIVE InjOfLen(_,_)
InjOfLen(n, k) == IF k = 0 THEN {<<>>}
                  ELSE {t \in {Append(s, c) : s \in InjOfLen(n, k-1), c \in 1..n} : \A i \in 1..(k-1) : t[i] # t[k]}
Lengths(n) == (1..n) \ {n - 1}
Nodes(n) == UNION {InjOfLen(n, k) : k \in Lengths(n)}
FullNodes(n) == InjOfLen(n, n)
SwapAt(s, i) == [j \in 1..Len(s) |-> IF j = i THEN s[i+1] ELSE IF j = i + 1 THEN s[i] ELSE s[j]]
IsPrefix2(a, b) == Len(a) <= Len(b) /\ SubSeq(b, 1, Len(a)) = a
(* a and b differ by swapping two adjacent candidates *)
AdjSwap(a, b) == Len(a) = Len(b) /\ \E i \in 1..(Len(a) - 1) : b = SwapAt(a, i)
(* b is a with the next ranked candidate added (length n-2 grows straight to n) *)
Grows(a, b, n) == IsPrefix2(a, b) /\ (Len(b) = Len(a) + 1 \/ (Len(a) = n - 2 /\ Len(b) = n))
Adjacent(a, b, n) == AdjSwap(a, b) \/ Grows(a, b, n) \/ Grows(b, a, n)
(* the edge set as unordered pairs: the definition, and a constructive form proved equal for n <= 4 by MC_Metrics *)
EdgesDef(n) == {e \in {{a, b} : a, b \in Nodes(n)} : \E a, b \in e : a # b /\ Adjacent(a, b, n)}
Completions(a, n) == IF Len(a) = n - 2 THEN LET rest == (1..n) \ Range(a) IN {a \o <<x, y>> : x, y \in rest} \ {a \o <<x, x>> : x \in rest}
                     ELSE IF Len(a) < n - 2 THEN {Append(a, x) : x \in (1..n) \ Range(a)} ELSE {}
Edges(n) == UNION {{{a, SwapAt(a, i)} : i \in 1..(Len(a) - 1)} \cup {{a, b} : b \in Completions(a, n)} : a \in Nodes(n)}
FullEdges(n) == {{a, SwapAt(a, i)} : a \in FullNodes(n), i \in 1..(n - 1)}
RECURSIVE Falling(_,_)
Falling(n, k) == IF k = 0 THEN 1 ELSE (n - k + 1) * Falling(n, k - 1)
NodeCount(n) == SumInt([k \in Lengths(n) |-> Falling(n, k)], Lengths(n))

(* loading a profile (untied rankings over candidate sequence cs): each cast ballot's weight goes to its node; *)
(* a ballot listing all but one candidate is the ballot completed by the missing one                            *)
NodeOf(r, cs) == LET full == IF Len(r) = Len(cs) - 1 THEN Append(r, ToSet(cs) \ Listed(r)) ELSE r IN [i \in 1..Len(full) |-> CHOOSE x \in full[i] : TRUE]
HasNode(r, cs, fix) == fix \/ Len(r) # Len(cs) - 1
NodeWeights(p, cs, fix) ==
  LET cast == {r \in DOMAIN p : HasNode(r, cs, fix)}
  IN [nd \in {NodeOf(r, cs) : r \in cast} |-> SumRat(p, {r \in cast : NodeOf(r, cs) = nd})]
=============================================================================
