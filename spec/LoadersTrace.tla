----------------------------- MODULE LoadersTrace -----------------------------
(* Call-level trace validation for C18.  One trace = one call of the real code:     *)
(*   op = "csv"   load_csv on the CSV text the harness wrote for an abstract table  *)
(*   op = "scot"  load_scottish on the text written for an abstract Scottish file   *)
(*   op = "tocsv" PreferenceProfile.to_csv, the written file parsed back            *)
(* The logged, projected result (or the class of the exception) must be one of the  *)
(* outcomes Loaders.tla allows for the abstract input.                              *)
EXTENDS Loaders, Json, IOUtils
VARIABLES tid, done
Traces == ndJsonDeserialize(IOEnv.TRACE_FILE)
T == Traces[tid]
Write(rec) == Serialize(ToJson(rec) \o "\n", IOEnv.VERDICT_FILE,
                        [format |-> "TXT", charset |-> "UTF-8", openOptions |-> <<"WRITE", "CREATE", "APPEND">>]).exitValue = 0

(* compare a logged list of ballots {r, w} with an expected bag ranking |-> natural number *)
BallotsClause(logged, exp, len) ==
  IF \E i, j \in 1..Len(logged) : i # j /\ logged[i].r = logged[j].r THEN "PatternSplit"       \* one pattern, two ballots
  ELSE IF len >= 0 /\ \E i \in 1..Len(logged) : Len(logged[i].r) # len THEN "RankingLength"
  ELSE IF {logged[i].r : i \in 1..Len(logged)} # DOMAIN exp THEN "Patterns"
  ELSE IF \E i \in 1..Len(logged) : logged[i].w # <<exp[logged[i].r], 1>> THEN "Weights"
  ELSE ""

CsvClause ==
  LET outs == LoadCSVR(T.exists, T.table, T.cfg, T.reps)
      errs == {o.err : o \in outs} \ {""}
  IN IF errs # {} THEN (IF T.error \in errs THEN "" ELSE IF T.error = "" THEN "NotRejected" ELSE "WrongError:" \o T.error)
     ELSE IF T.error # "" THEN "Error:" \o T.error
     ELSE BallotsClause(T.ballots, (CHOOSE o \in outs : TRUE).bag, Len(RankCols(T.cfg, Len(T.table[1]))))

ScotClause ==
  LET f == T.file
      errs == ScotErrors(f)
  IN IF errs # {} THEN (IF T.error = "" THEN "NotRejected" ELSE IF "*" \in errs \/ T.error \in errs THEN "" ELSE "WrongError:" \o T.error)
     ELSE IF T.error # "" THEN "Error:" \o T.error
     ELSE LET e == LoadScottish(f) IN
          IF T.out.seats # e.seats THEN "Seats"
          ELSE IF T.out.ward # e.ward THEN "Ward"
          ELSE IF ToSet(T.out.cands) # e.cands \/ Len(T.out.cands) # Cardinality(e.cands) THEN "Candidates"
          ELSE IF ToSet(T.out.pcands) # e.cands \/ Len(T.out.pcands) # Cardinality(e.cands) THEN "ProfileCandidates"
          ELSE IF ToSet(T.out.party) # e.party THEN "Parties"
          ELSE BallotsClause(T.ballots, e.bag, -1)

NormRows(seq) == [i \in 1..Len(seq) |-> [r |-> [k \in 1..Len(seq[i].r) |-> ToSet(seq[i].r[k])], w |-> seq[i].w, s |-> ToSet(seq[i].s)]]
ToCsvClause ==
  IF T.error # "" THEN "Error:" \o T.error
  ELSE IF T.header # <<"weight", "ranking", "scores">> THEN "Header"
  ELSE IF Len(T.rows) # Len(T.inb) THEN "RowCount"
  ELSE IF ~T.exact THEN "InexactWeight"
  ELSE IF ~SameMultiset(NormRows(T.rows), NormRows(T.inb)) THEN "Rows"
  ELSE ""

Clause == CASE T.op = "csv" -> CsvClause [] T.op = "scot" -> ScotClause [] T.op = "tocsv" -> ToCsvClause

TInit == tid \in 1..Len(Traces) /\ done = FALSE
Advance == /\ ~done
           /\ Clause \in STRING       \* evaluated here, outside the Serialize override: an evaluation error (overflow) is then TLC's, not a silent FALSE
           /\ Write([tid |-> T.id, kind |-> "final", l |-> 0, nrej |-> IF Clause = "" THEN 0 ELSE 1, clause |-> Clause,
                     status |-> T.op, rule |-> T.op, flags |-> <<>>])
           /\ done' = TRUE /\ UNCHANGED tid
TSpec == TInit /\ [][Advance]_<<tid, done>>
=============================================================================
