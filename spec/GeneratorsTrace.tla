----------------------------- MODULE GeneratorsTrace -----------------------------
(* Call-level trace validation for the ballot generators.  One trace = one call   *)
(* of the real code (skeleton: ScoringTrace.tla).                                  *)
(*  C14: one generate_profile(N) call of one generator; the spec evaluates          *)
(*       GenVerdict (WellFormed + the Huntington-Hill clause) and names the first   *)
(*       failing clause.                                                            *)
(*  C15: one constructed object; the tables the code exposes are logged as integer  *)
(*       numerators over a scale (numerator = value * scale, rounded, -1 when the   *)
(*       product is not within 1e-9 of a whole number); the spec recomputes the     *)
(*       unnormalised integer weights and the normaliser itself and demands         *)
(*       scale = normaliser and numerator = weight for every entry.                 *)
EXTENDS Generators, Json, IOUtils, TLC
VARIABLES tid, done
Traces == ndJsonDeserialize(IOEnv.TRACE_FILE)
T == Traces[tid]
SetSeq(js) == [i \in 1..Len(js) |-> ToSet(js[i])]
BagOf(js) == LET S == ToSet(js) IN [r \in {SetSeq(b.r) : b \in S} |-> Rat2((CHOOSE b \in S : SetSeq(b.r) = r).w)]
(* JSON array of [key, value] pairs -> function *)
PairsFn(js) == LET S == ToSet(js) IN [k \in {e[1] : e \in S} |-> (CHOOSE e \in S : e[1] = k)[2]]
ScoreFn(js) == LET f == PairsFn(js) IN [c \in DOMAIN f |-> Rat2(f[c])]
SBagOf(js) == LET S == ToSet(js) IN [x \in {ScoreFn(b.s) : b \in S} |-> Rat2((CHOOSE b \in S : ScoreFn(b.s) = x).w)]
Write(rec) == Serialize(ToJson(rec) \o "\n", IOEnv.VERDICT_FILE,
                        [format |-> "TXT", charset |-> "UTF-8", openOptions |-> <<"WRITE", "CREATE", "APPEND">>]).exitValue = 0
TableOps == {"interval", "combined", "bt", "sbt"}

(* ------------------------------------------------------------------ C14 *)
C == ToSet(T.cands)
AnyBag(js) == IF T.op = "Cumulative" THEN SBagOf(js) ELSE BagOf(js)
Slates14 == PairsFn(T.slates)
P == [kind  |-> T.op,
      C     |-> C,
      blocs |-> T.blocs,
      slate |-> [c \in C |-> IF T.slates = <<>> THEN "" ELSE CHOOSE b \in DOMAIN Slates14 : c \in ToSet(Slates14[b])],
      prop  |-> LET p == PairsFn(T.props) IN [b \in DOMAIN p |-> Rat2(p[b])],
      coh   |-> LET q == PairsFn(T.coh) IN [b \in DOMAIN q |-> LET row == PairsFn(q[b]) IN [s \in DOMAIN row |-> Rat2(row[s])]],
      sup   |-> LET q == PairsFn(T.sup) IN [b \in DOMAIN q |-> PairsFn(q[b])],
      len   |-> T.len]
Bags14 == LET q == PairsFn(T.bags) IN [b \in DOMAIN q |-> AnyBag(q[b])]
Clause14 == GenVerdict(P, T.n, AnyBag(T.bag), T.byb, Bags14, T.dropped, T.error)

(* ------------------------------------------------------------------ C15 *)
Sups15 == LET q == PairsFn(T.slates) IN [b \in DOMAIN q |-> PairsFn(q[b])]
Coh15 == LET q == PairsFn(T.coh) IN [b \in DOMAIN q |-> Rat2(q[b])]
Tab == PairsFn(T.table)
AllZero == \A b \in DOMAIN Sups15 : SupSum(Sups15[b]) = 0
ClauseInterval == LET sup == Sups15[""] IN
   IF T.error # "" THEN (IF SupSum(sup) = 0 /\ T.error = "ZeroDivisionError" THEN "" ELSE "Error:" \o T.error)   \* documented refusal
   ELSE IF SupSum(sup) = 0 THEN "NoSupportAccepted"
   ELSE IF T.scale # SupSum(sup) THEN "Normaliser"
   ELSE IF ToSet(T.zero) # ZeroC(sup) THEN "ZeroCands"
   ELSE IF ToSet(T.nonzero) # NonZero(sup) THEN "NonZeroCands"
   ELSE IF Tab # [c \in NonZero(sup) |-> sup[c]] THEN "Interval"
   ELSE IF ~T.sumok THEN "SumsToOne"
   ELSE ""
ClauseCombined == LET cw == CombW(Sups15, Coh15) IN
   IF T.error # "" THEN "Error:" \o T.error
   ELSE IF T.scale # SumInt(cw, DOMAIN cw) THEN "Normaliser"
   ELSE IF ToSet(T.zero) # CombZero(Sups15, Coh15) THEN "ZeroCands"
   ELSE IF ToSet(T.nonzero) # DOMAIN cw THEN "NonZeroCands"
   ELSE IF Tab # cw THEN "Combined"
   ELSE IF ~T.sumok THEN "SumsToOne"
   ELSE ""
ClauseBT == LET x == CombW(Sups15, Coh15) IN
   IF T.error # "" THEN "Error:" \o T.error
   ELSE IF T.scale # BTZ(x) THEN "Normaliser"
   ELSE IF Tab # BTTable(x) THEN "BTTable"
   ELSE IF ~T.sumok \/ SumInt(Tab, DOMAIN Tab) # T.scale THEN "SumsToOne"
   ELSE ""
ClauseSBT == LET own == T.own
                 coh == Coh15[own]
                 no  == Cardinality(NonZero(Sups15[own]))
                 np  == SumInt([b \in DOMAIN Sups15 \ {own} |-> Cardinality(NonZero(Sups15[b]))], DOMAIN Sups15 \ {own})
                 abs == [key \in DOMAIN Tab |-> [i \in DOMAIN key |-> IF key[i] = own THEN "o" ELSE "p"]]
                 k == coh[1]  d == coh[2] IN
   IF T.error # "" THEN "Error:" \o T.error
   ELSE IF T.scale # SBTZ(no, np, k, d) THEN "Normaliser"
   ELSE IF {abs[key] : key \in DOMAIN Tab} # SBTypes(no, np) \/ Cardinality(DOMAIN Tab) # Cardinality(SBTypes(no, np)) THEN "SlateBTTypes"
   ELSE IF \E key \in DOMAIN Tab : Tab[key] # SBTW(abs[key], k, d) THEN "SlateBTTable"
   ELSE IF ~T.sumok \/ SumInt(Tab, DOMAIN Tab) # T.scale THEN "SumsToOne"
   ELSE ""
Clause ==
  CASE T.op = "interval" -> ClauseInterval
    [] T.op = "combined" -> ClauseCombined
    [] T.op = "bt"       -> ClauseBT
    [] T.op = "sbt"      -> ClauseSBT
    [] OTHER             -> Clause14

TInit == tid \in 1..Len(Traces) /\ done = FALSE
Advance == /\ ~done
           /\ Clause \in STRING       \* evaluated here, outside the Serialize override: an evaluation error (overflow) is then TLC's, not a silent FALSE
           /\ Write([tid |-> T.id, kind |-> "final", l |-> 0, nrej |-> IF Clause = "" THEN 0 ELSE 1, clause |-> Clause,
                     status |-> T.op, rule |-> T.op, flags |-> <<>>])
           /\ done' = TRUE /\ UNCHANGED tid
TSpec == TInit /\ [][Advance]_<<tid, done>>
=============================================================================
