------------------------------ MODULE MC_Transfers ------------------------------
(* Spec-level facts about the transfer rules (C03) over every bag of <= MaxBallots *)
(* untied rankings, every winner and every threshold 1 <= q <= tally.             *)
EXTENDS Transfers, TLC
CONSTANTS Cand, MaxBallots, MaxW
VARIABLES bag
Untieds(C) == UNION { {s \in [1..k -> C] : \A i, j \in 1..k : i # j => s[i] # s[j]} : k \in 1..Cardinality(C) }
Rankings == {Singles(s) : s \in Untieds(Cand)}
Init == bag = NoBallots
Add == /\ Cardinality(DOMAIN bag) < MaxBallots
       /\ \E r \in Rankings \ DOMAIN bag, w \in 1..MaxW : bag' = [x \in DOMAIN bag \cup {r} |-> IF x = r THEN R(w) ELSE bag[x]]
Spec == Init /\ [][Add]_bag
Tally(w) == Fpv(bag, Cand)[w]
Cases == {<<w, q>> \in Cand \X (1..(MaxW * MaxBallots)) : q <= RFloor(Tally(w))}
Exh(w) == SumRat(bag, {r \in Pile(bag, w) : Len(r) = 1})
(* fractional: winner gone; total drops by exactly  q + exhausted share  of the pile *)
FractionalConserves == \A c \in Cases : LET w == c[1]  q == c[2]  t == Tally(w)  out == FractionalResult(bag, w, t, q) IN
   /\ w \notin CandsCast(out)
   /\ Total(out) = RSub(RSub(Total(bag), R(q)), RMul(Exh(w), TransferValueQ(t, q)))
   /\ \A r \in DOMAIN bag : r[1] # {w} /\ Strip(r, {w}) # <<>> => RLe(bag[r], out[Strip(r, {w})])
(* random: a sub-collection of the pile of size min(surplus, transferable); probabilities sum to one; each *)
(* transferable unit ballot is chosen with the same probability K / transferable                           *)
RandomIsUniform == \A c \in Cases : LET w == c[1]  q == c[2]  t == Tally(w)
                                        picks == RandPicksQ(bag, w, t, q)
                                        pile  == Transferable(bag, w)
                                        tot   == SumInt([r \in pile |-> bag[r][1]], pile)
                                        K     == IF RFloor(t) - q < tot THEN RFloor(t) - q ELSE tot IN
   /\ FoldSet(LAMBDA f, acc : RAdd(PickProb(bag, w, f), acc), R(0), picks) = R(1)
   /\ \A r \in pile : FoldSet(LAMBDA f, acc : RAdd(RMul(PickProb(bag, w, f), R(f[r])), acc), R(0), picks) = RDiv(R(K * bag[r][1]), R(IF tot = 0 THEN 1 ELSE tot))
   /\ \A o \in RandomResults(bag, w, t, q) : w \notin CandsCast(o[1]) /\ RLe(Total(o[1]), RSub(Total(bag), R(q)))
(* the enumeration-free membership predicate used for piles of thousands of votes agrees with the enumerated set: every pick satisfies *)
(* it, and no bag obtained from a function that is NOT a legal pick (wrong size, or more copies of a ballot than exist) does            *)
PickPredicateAgrees == \A c \in Cases : LET w == c[1]  q == c[2]  t == Tally(w)
                                            pile == Transferable(bag, w)
                                            tot  == SumInt([r \in pile |-> bag[r][1]], pile)
                                            picks == RandPicksQ(bag, w, t, q) IN
   /\ \A o \in RandomResults(bag, w, t, q) : IsRandomResult(bag, w, t, q, o[1])
   /\ \A f \in [pile -> 0..(tot + 1)] \ picks : ~IsRandomResult(bag, w, t, q, RemoveCands(ApplyPick(bag, w, f), {w}))
=============================================================================
