------------------------------ MODULE MC_Loaders ------------------------------
(* Spec-level facts of C18 about LoadCSV, checked on every table with at most     *)
(* MaxRows rows and MaxCols columns over the cell alphabet {a, b, blank}, for      *)
(* every configuration (every non-empty ordered selection of rank columns or       *)
(* "all", optional id column over {v1, v2, v3, blank}, optional weight column      *)
(* over {1, 2, 3}).  The table is grown by the AddRow action.                       *)
EXTENDS Loaders
CONSTANTS MaxRows, MaxCols
VARIABLES ncols, cfg, rows
vars == <<ncols, cfg, rows>>
Cells == {"a", "b", Blank}
Ids == {"v1", "v2", "v3", Blank}
Ws == {"1", "2", "3"}
RECURSIVE InjSeqs(_)
InjSeqs(S) == {<<>>} \cup UNION {{<<c>> \o t : t \in InjSeqs(S \ {c})} : c \in S}
Configs(n) == {c \in [rank : InjSeqs(1..n), id : 0..n, weight : 0..n] :
                 /\ (c.id = 0 \/ c.id # c.weight)
                 /\ \A k \in 1..Len(c.rank) : c.rank[k] # c.id /\ c.rank[k] # c.weight
                 /\ RankCols(c, n) # <<>>}
Allowed(c, col) == IF col = c.id THEN Ids ELSE IF col = c.weight THEN Ws ELSE Cells
RowSet(n, c) == {row \in [1..n -> Cells \cup Ids \cup Ws] : \A col \in 1..n : row[col] \in Allowed(c, col)}
Init == /\ ncols \in 1..MaxCols /\ cfg \in Configs(ncols) /\ rows = <<>>
AddRow == /\ Len(rows) < MaxRows
          /\ \E row \in RowSet(ncols, cfg) : rows' = Append(rows, row)
          /\ UNCHANGED <<ncols, cfg>>
Spec == Init /\ [][AddRow]_vars

Out == LoadCSV(TRUE, rows, cfg)
Errs == CsvErrors(TRUE, rows, cfg)
Good == Errs = {}
TheBag == (CHOOSE o \in Out : TRUE).bag
RC == RankCols(cfg, ncols)
N == Len(rows)

(* exactly one outcome when nothing is wrong; only documented errors otherwise *)
Deterministic == /\ Good => Cardinality(Out) = 1 /\ \A o \in Out : o.err = ""
                 /\ ~Good => \A o \in Out : o.err \in {"EmptyDataError", "ValueError", "DataError"} /\ o.bag = NoBag
(* rejected exactly for: no data, a blank voter id, a repeated voter id *)
RejectedIff == Good <=> /\ N > 0
                        /\ cfg.id # 0 => /\ \A i \in 1..N : rows[i][cfg.id] # Blank
                                         /\ \A i, j \in 1..N : i # j => rows[i][cfg.id] # rows[j][cfg.id]
MissingFile == LoadCSV(FALSE, rows, cfg) = {[err |-> "FileNotFoundError", bag |-> NoBag]}
(* the total weight is the row count, or the sum of the weight column *)
TotalWeight == Good => BagTotal(TheBag) = IF cfg.weight = 0 THEN N ELSE SumNat([i \in 1..N |-> WVal(rows[i][cfg.weight])], 1..N)
(* two rows are merged into one ballot exactly when they agree on every selected rank column *)
OnePerPattern == Good =>
   /\ \A i, j \in 1..N : (\A k \in 1..Len(RC) : rows[i][RC[k]] = rows[j][RC[k]]) <=> Pattern(rows[i], RC) = Pattern(rows[j], RC)
   /\ \A i \in 1..N : Pattern(rows[i], RC) \in DOMAIN TheBag
   /\ \A r \in DOMAIN TheBag : TheBag[r] > 0 /\ \E i \in 1..N : \A k \in 1..Len(RC) : r[k] = rows[i][RC[k]]
   /\ Cardinality(DOMAIN TheBag) <= N
   /\ (Cardinality(DOMAIN TheBag) = N <=> \A i, j \in 1..N : i # j => \E k \in 1..Len(RC) : rows[i][RC[k]] # rows[j][RC[k]])
(* every ballot has one position per rank column, in the order the columns were selected *)
RankingLength == Good => /\ \A r \in DOMAIN TheBag : Len(r) = Len(RC)
                         /\ cfg.rank = <<>> => Len(RC) = ncols - (IF cfg.id = 0 THEN 0 ELSE 1) - (IF cfg.weight = 0 THEN 0 ELSE 1)
                         /\ cfg.rank # <<>> => RC = cfg.rank
(* empty cells stay explicit blanks: weighted blank positions = blank cells of the rank columns *)
BlanksKept == (Good /\ cfg.weight = 0) =>
   SumNat([r \in DOMAIN TheBag |-> TheBag[r] * Cardinality({k \in 1..Len(r) : r[k] = Blank})], DOMAIN TheBag)
     = SumNat([i \in 1..N |-> Cardinality({k \in 1..Len(RC) : rows[i][RC[k]] = Blank})], 1..N)
(* the result does not depend on the order of the rows *)
BlockRowsAgree == LoadCSVR(TRUE, rows, cfg, [i \in 1..Len(rows) |-> 1]) = Out      \* multiplicity 1 everywhere is the plain table
OrderIrrelevant == Good => CsvBag(Reverse(rows), cfg) = TheBag
=============================================================================
