---- MODULE Droop ----
EXTENDS Integers, TLAPS
Q(N, m) == (N \div (m + 1)) + 1
THEOREM DroopBound == \A N \in Nat, m \in Nat \ {0} : (m + 1) * Q(N, m) > N
<1> SUFFICES ASSUME NEW N \in Nat, NEW m \in Nat \ {0} PROVE (m + 1) * Q(N, m) > N
  OBVIOUS
<1> DEFINE d == m + 1
<1> DEFINE q == N \div d
<1> DEFINE r == N % d
<1>1. d \in Nat /\ d > 0
  OBVIOUS
<1>2. N = d * q + r /\ r >= 0 /\ r < d /\ q \in Int
  BY <1>1
<1>3. d * (q + 1) = d * q + d
  BY <1>1, <1>2
<1>4. d * (q + 1) > N
  BY <1>1, <1>2, <1>3
<1> QED BY <1>4 DEF Q
====
