------------------------------ MODULE MC_Rating ------------------------------
EXTENDS Rating, TLC
CONSTANTS Cand, MaxBallots
VARIABLES sp, cfg
ScoreVals == {<<1,2>>, R(1), <<3,2>>, R(2)}
Ballots0 == UNION {[D -> ScoreVals] : D \in (SUBSET Cand) \ {{}}}
Grid == {<<1,2>>, R(1), <<3,2>>, R(2), R(3)}
Configs == {[rule |-> "GeneralRating", m |-> m, L |-> L, hasK |-> hk, k |-> k, tb |-> tb] :
              m \in 1..Cardinality(Cand), L \in Grid, hk \in BOOLEAN, k \in Grid, tb \in {"none", "random"}}
Init == sp = <<>> /\ cfg \in {c \in Configs : ~c.hasK \/ RLe(c.L, c.k)}
Add == /\ Cardinality(DOMAIN sp) < MaxBallots
       /\ \E b \in Ballots0 \ DOMAIN sp, w \in {R(1), R(2), <<1,2>>} : sp' = [x \in DOMAIN sp \cup {b} |-> IF x = b THEN w ELSE sp[x]]
       /\ UNCHANGED cfg
Spec == Init /\ [][Add]_<<sp, cfg>>
Tot == ScoreTotals(sp, Cand)
(* consequences of enforcing the limits on every ballot *)
LimitBoundsTotals == Accepts(sp, cfg) => \A c \in Cand : RLe(Tot[c], RMul(Limits(cfg).L, Total(sp)))
BudgetBoundsSum == (Accepts(sp, cfg) /\ cfg.hasK) => RLe(SumRat(Tot, Cand), RMul(cfg.k, Total(sp)))
(* winners: exactly m, none lower than any loser; error only for an unbroken boundary tie *)
WinnersOK == Accepts(sp, cfg) => \A o \in Outcomes(sp, Cand, cfg) :
   IF o.err THEN cfg.tb = "none"
   ELSE /\ NumCands(o.elected) = cfg.m
        /\ \A a \in UNION Range(o.elected), b \in UNION Range(o.remaining) : RLe(Tot[b], Tot[a])
(* weights multiply scores: doubling every weight doubles every total *)
Doubled == [b \in DOMAIN sp |-> RMul(R(2), sp[b])]
WeightsMultiply == \A c \in Cand : ScoreTotals(Doubled, Cand)[c] = RMul(R(2), Tot[c])
=============================================================================
