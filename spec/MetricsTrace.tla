----------------------------- MODULE MetricsTrace -----------------------------
(* Call-level trace validation for C19.  One trace = one group of calls:          *)
(*   op = "lp"      lp_dist on the pairs of a triple of profiles (a, b, c), on     *)
(*                  re-presentations of a (reordered, uncondensed, rescaled,       *)
(*                  zero-weight ballot added) against b and against a itself       *)
(*   op = "graph"   BallotGraph(n).graph nodes and edges (allow_partial or not)    *)
(*   op = "weights" node weights after loading a profile                           *)
(* lp_dist returns floats.  The harness logs, for p = 1 / 'inf', the rational with *)
(* denominator <= 10^4 nearest to the returned float when that is within 1e-9      *)
(* (relative), and for p >= 2 the same for the p-th power of the returned float;   *)
(* otherwise ok = FALSE and the trace is rejected here (Inexact).  p = 0 encodes   *)
(* 'inf'.  The root triangle inequality for p >= 2 is the harness's numerical      *)
(* check on the code's own three outputs (T.tri); everything else is decided here. *)
EXTENDS Metrics, Json, IOUtils, TLC
VARIABLES tid, done
Traces == ndJsonDeserialize(IOEnv.TRACE_FILE)
T == Traces[tid]
SetSeq(js) == [i \in 1..Len(js) |-> ToSet(js[i])]
BagOf(js) == LET S == ToSet(js) IN [r \in {SetSeq(b.r) : b \in S} |-> Rat2((CHOOSE b \in S : SetSeq(b.r) = r).w)]
Write(rec) == Serialize(ToJson(rec) \o "\n", IOEnv.VERDICT_FILE,
                        [format |-> "TXT", charset |-> "UTF-8", openOptions |-> <<"WRITE", "CREATE", "APPEND">>]).exitValue = 0

Val(k, x, y) == IF k = 0 THEN Linf(x, y) ELSE LpPow(x, y, k)
LpClause ==
  LET A == BagOf(T.a)  B == BagOf(T.b)  C == BagOf(T.c)  k == T.p
      ab == Rat2(T.vals.ab.v)  bc == Rat2(T.vals.bc.v)  ac == Rat2(T.vals.ac.v)  ba == Rat2(T.vals.ba.v)
      badvar == {i \in 1..Len(T.vars) : Rat2(T.vars[i].v) # Val(k, A, B)}
      badself == {i \in 1..Len(T.selfs) : Rat2(T.selfs[i].v) # R(0)}
  IN IF T.error # "" THEN "Error:" \o T.error
     ELSE IF ~(T.vals.ab.ok /\ T.vals.bc.ok /\ T.vals.ac.ok /\ T.vals.ba.ok) \/ \E i \in 1..Len(T.vars) : ~T.vars[i].ok
             \/ \E j \in 1..Len(T.selfs) : ~T.selfs[j].ok THEN "Inexact"
     ELSE IF ab # Val(k, A, B) \/ bc # Val(k, B, C) \/ ac # Val(k, A, C) THEN "Value"
     ELSE IF ba # ab THEN "Symmetry"
     ELSE IF badvar # {} THEN "Variant:" \o T.vars[CHOOSE i \in badvar : \A j \in badvar : i <= j].kind
     ELSE IF badself # {} THEN "Zero:" \o T.selfs[CHOOSE i \in badself : \A j \in badself : i <= j].kind
     ELSE IF ~(SameDistribution(A, B) <=> ab = R(0)) THEN "Identity"
     ELSE IF k \in {0, 1} /\ ~RLe(ac, RAdd(ab, bc)) THEN "Triangle"
     ELSE IF k >= 2 /\ ~T.tri THEN "TriangleNumeric"
     ELSE ""

GraphClause ==
  LET ns == ToSet(T.nodes)
      es == {ToSet(e) : e \in ToSet(T.edges)}
      wantN == IF T.full THEN FullNodes(T.n) ELSE Nodes(T.n)
      wantE == IF T.full THEN FullEdges(T.n) ELSE Edges(T.n)
  IN IF T.error # "" THEN "Error:" \o T.error
     ELSE IF Len(T.nodes) # Cardinality(ns) THEN "DuplicateNode"
     ELSE IF ns # wantN THEN "Nodes"
     ELSE IF \E e \in es : Cardinality(e) # 2 THEN "SelfLoop"
     ELSE IF Len(T.edges) # Cardinality(es) THEN "DuplicateEdge"
     ELSE IF es # wantE THEN "Edges"
     ELSE IF T.nkeys # Cardinality(wantN) THEN "NodeWeightKeys"
     ELSE ""

WeightsClause ==
  LET cs == T.cands
      p == BagOf(T.a)
      exp == NodeWeights(p, cs, T.fix)
      logged == {<<x[1], Rat2(x[2])>> : x \in ToSet(T.nodew)}
      attr == {<<x[1], Rat2(x[2])>> : x \in ToSet(T.attrw)}
  IN IF T.error # "" THEN "Error:" \o T.error
     ELSE IF logged # {<<nd, exp[nd]>> : nd \in DOMAIN exp} THEN "NodeWeights"
     ELSE IF attr # logged THEN "NodeAttrWeights"      \* the 'weight' node attribute of the networkx graph says the same
     ELSE IF T.nkeys # NodeCount(Len(cs)) THEN "NodeWeightKeys"
     ELSE IF (\A r \in DOMAIN p : HasNode(r, cs, T.fix)) /\ Rat2(T.total) # Total(p) THEN "TotalWeight"
     ELSE ""

Clause == CASE T.op = "lp" -> LpClause [] T.op = "graph" -> GraphClause [] T.op = "weights" -> WeightsClause

TInit == tid \in 1..Len(Traces) /\ done = FALSE
Advance == /\ ~done
           /\ Clause \in STRING       \* evaluated here, outside the Serialize override: an evaluation error (overflow) is then TLC's, not a silent FALSE
           /\ Write([tid |-> T.id, kind |-> "final", l |-> 0, nrej |-> IF Clause = "" THEN 0 ELSE 1, clause |-> Clause,
                     status |-> T.op, rule |-> T.op, flags |-> <<>>])
           /\ done' = TRUE /\ UNCHANGED tid
TSpec == TInit /\ [][Advance]_<<tid, done>>
=============================================================================
