------------------------------ MODULE MC_Scoring ------------------------------
(* Spec-level facts about positional scoring (C04), checked exhaustively on a   *)
(* bounded space built by actions: bags of <= MaxBallots weak partial rankings. *)
EXTENDS Scoring, TLC
CONSTANTS Cand, MaxBallots
VARIABLES bag, vec
RECURSIVE Weak(_)
Weak(C) == {<<>>} \cup UNION { {<<g>> \o t : t \in Weak(C \ g)} : g \in (SUBSET C) \ {{}} }
Rankings == Weak(Cand) \ {<<>>}
Weights == {R(1), R(2), <<1,2>>, <<1,3>>}
Vectors == {<<R(1)>>, BordaVec(Cardinality(Cand)), <<R(2), R(1), R(1), R(0)>>, <<<<3,2>>, <<1,2>>>>, <<R(3), R(3)>>, <<>>,
            <<R(5), R(3), R(1), R(1), R(0), R(0)>>}
Init == bag = NoBallots /\ vec \in Vectors
Add == /\ Cardinality(DOMAIN bag) < MaxBallots
       /\ \E r \in Rankings \ DOMAIN bag, w \in Weights : bag' = [x \in DOMAIN bag \cup {r} |-> IF x = r THEN w ELSE bag[x]]
       /\ UNCHANGED vec
Spec == Init /\ [][Add]_<<bag, vec>>
n == Cardinality(Cand)
(* every ballot hands out weight * (sum of the first n vector entries) *)
HandsOutAll == SumRat(Positional(bag, Cand, vec), Cand) = RMul(Total(bag), VecTotal(vec, n))
(* first-place votes, Borda and mentions are the stated special cases *)
FpvIsSpecialCase == Fpv(bag, Cand) = FpvDef(bag, Cand)
BordaIsSpecialCase == Borda(bag, Cand) = Positional(bag, Cand, BordaVec(n))
(* expanding ties leaves every positional score unchanged (used by C12) *)
ExpandPreserves == Positional(ExpandTies(AddMissing(bag, Cand)), Cand, vec) = Positional(bag, Cand, vec)
(* the induced ranking is a partition ordered by score *)
GroupOK == LET sc == Positional(bag, Cand, vec)  g == Group(sc, Cand) IN
   /\ UNION Range(g) = Cand
   /\ \A i, j \in 1..Len(g) : i < j => \A a \in g[i], b \in g[j] : RLt(sc[b], sc[a])
   /\ \A i \in 1..Len(g) : \A a, b \in g[i] : sc[a] = sc[b]
(* electing the top m: winners never score below losers, exactly m of them *)
ElectOK == \A m \in 1..n : LET sc == Positional(bag, Cand, vec) IN
   \A o \in ElectTop(Group(sc, Cand), m, "random", sc) :
      /\ ~o.err /\ NumCands(o.elected) = m /\ UNION Range(o.elected) \cup UNION Range(o.remaining) = Cand
      /\ \A a \in UNION Range(o.elected), b \in UNION Range(o.remaining) : RLe(sc[b], sc[a])
=============================================================================
