---------------------------- MODULE MC_ProfileADT ----------------------------
(* Spec-level laws of the profile value model (C11, C12), checked on every     *)
(* pair of profiles (sequences!) built by actions over a small alphabet of     *)
(* ballot contents -- ranked only, scored only, both (same ranking as the      *)
(* ranked-only one), neither, a tie, a short ballot, a repeated candidate --   *)
(* and the weights 1, 2, 1/2.                                                  *)
EXTENDS ProfileADT, TLC
CONSTANTS Cand, MaxP, MaxQ, Alpha
VARIABLES p, q
ca == CHOOSE x \in Cand : TRUE
cb == CHOOSE x \in Cand \ {ca} : TRUE
kRanked  == Cont(<<{ca}, {cb}>>, {})
kBoth    == Cont(<<{ca}, {cb}>>, {<<ca, R(1)>>})
kBoth2   == Cont(<<{ca}, {cb}>>, {<<ca, R(1)>>, <<cb, <<1, 2>>>>})
kScored  == Cont(<<>>, {<<ca, R(1)>>})
kNeither == Cont(<<>>, {})
kTie     == Cont(<<{ca, cb}>>, {})
kShort   == Cont(<<{cb}>>, {})
kRepeat  == Cont(<<{ca}, {cb}, {ca}>>, {})
AlphaSet == IF Alpha = "small" THEN {kRanked, kBoth, kScored, kNeither, kTie}
            ELSE {kRanked, kBoth, kBoth2, kScored, kNeither, kTie, kShort, kRepeat}
Weights == {R(1), R(2), <<1, 2>>}
Init == p = NoProfile /\ q = NoProfile
AddP == /\ Len(p) < MaxP
        /\ \E k \in AlphaSet, w \in Weights : p' = Append(p, [c |-> k, w |-> w])
        /\ UNCHANGED q
AddQ == /\ Len(q) < MaxQ
        /\ \E k \in AlphaSet, w \in Weights : q' = Append(q, [c |-> k, w |-> w])
        /\ UNCHANGED p
Spec == Init /\ [][AddP \/ AddQ]_<<p, q>>
Removable == SUBSET (Cand \cup {"Z"})          \* none, some, all, a name that is not present

(* ---------------- condense ---------------- *)
CondenseDistinct == Distinct(Condense(p))
CondenseConserves == /\ Contents(Condense(p)) = Contents(p)
                     /\ \A k \in Contents(p) : WeightOf(Condense(p), k) = WeightOf(p, k)
                     /\ PBag(Condense(p)) = PBag(p)
CondenseIdempotent == Condense(Condense(p)) = Condense(p)
CondenseOrderIndependent == \A f \in Perms(Len(p)) : PBag(Condense(Permuted(p, f))) = PBag(Condense(p))
DerivedStable == /\ TotalWt(Condense(p)) = TotalWt(p)
                 /\ CastCands(Condense(p)) = CastCands(p)
                 /\ NumBallots(Condense(p)) = Cardinality(Contents(p))
(* ---------------- == and + ---------------- *)
EqIffSameBag == ProfileEq(p, q) <=> (PBag(p) = PBag(q))
EqSymmetric == ProfileEq(p, q) = ProfileEq(q, p)
EqCondense == ProfileEq(p, Condense(p)) /\ \A f \in Perms(Len(p)) : ProfileEq(p, Permuted(p, f))
AddAddsBags == PBag(ProfileAdd(p, q)) = PBagAdd(PBag(p), PBag(q))
AddCommutes == ProfileEq(ProfileAdd(p, q), ProfileAdd(q, p))
AddDerived == /\ TotalWt(ProfileAdd(p, q)) = RAdd(TotalWt(p), TotalWt(q))
              /\ NumBallots(ProfileAdd(p, q)) = NumBallots(p) + NumBallots(q)
              /\ CastCands(ProfileAdd(p, q)) = CastCands(p) \cup CastCands(q)
(* ---------------- removal (C12) ---------------- *)
RemovalConserves == \A X \in Removable : LET E == RemoveCandsP(p, X) IN
   /\ RAdd(TotalWt(E), ExhaustedWt(p, X)) = TotalWt(p)                        \* weight disappears only with emptied ballots
   /\ \A k \in Contents(E) : WeightOf(E, k) = SumIdx(p, {i \in DOMAIN p : StripC(p[i].c, X) = k})
   /\ RB(E) = RemoveCands(RB(p), X)                                           \* agrees with the ranking-bag operator of Ballots
RemovalNoMention == \A X \in Removable : \A i \in DOMAIN RemoveCandsP(p, X) : ContCands(RemoveCandsP(p, X)[i].c) \cap X = {}
RemovalKeepsOrder == \A X \in Removable : \A i \in DOMAIN p : NoRepeat(p[i].c.r) =>
   \A x, y \in Cand \ X : Rel(Strip(p[i].c.r, X), x, y) = Rel(p[i].c.r, x, y)
RemoveNothing == \A X \in {{}, {"Z"}} : RemoveCandsP(p, X) = SelectSeq(p, LAMBDA b : ~IsEmptyC(b.c))
RemovalCommutesWithCondense == \A X \in Removable : PBag(RemoveCandsP(Condense(p), X)) = PBag(RemoveCandsP(p, X))
(* ---------------- add missing / de-duplicate / expand ties (C12) ---------------- *)
Bg == Deduplicate(RB(p))                \* a bag of proper rankings (pairwise disjoint positions)
DedupOK == /\ Total(Bg) = Total(RB(p))
           /\ \A r \in DOMAIN Bg : NoRepeat(r)
           /\ \A r \in DOMAIN RB(p) : NoRepeat(r) => Dedup(r) = r
           /\ \A r \in DOMAIN RB(p) : Listed(Dedup(r)) = Listed(r)
AddMissingOK == LET m == AddMissing(Bg, Cand) IN
           /\ Total(m) = Total(Bg)
           /\ \A r \in DOMAIN m : Listed(r) = Cand /\ NoRepeat(r)
           /\ \A r \in DOMAIN Bg : \A x, y \in Listed(r) : Rel(AddMissingR(r, Cand), x, y) = Rel(r, x, y)
ExpandEachOnce == /\ \A r \in DOMAIN Bg : Cardinality(Linearise(r)) = NumLin(r) /\ \A l \in Linearise(r) : Untied(l) /\ Listed(l) = Listed(r)
                  /\ Total(ExpandTies(Bg)) = Total(Bg)
ExpandPreservesFpv == Fpv(ExpandTies(Bg), Cand) = Fpv(Bg, Cand)
ExpandPreservesBorda == Borda(ExpandTies(Bg), Cand) = Borda(Bg, Cand)
ExpandPreservesMargins == \A x, y \in Cand : Margin(ExpandTies(Bg), x, y) = Margin(Bg, x, y)
(* ---------------- negative controls: these are expected to be VIOLATED (the driver checks that they are) ---------------- *)
(* a condense keyed on the ranking alone (the first ballot of a ranking lends its scores to the whole group) *)
BadCondense(P) == LET first == {i \in DOMAIN P : \A j \in 1..(i-1) : P[j].c.r # P[i].c.r}
                      idx == SetToSortSeq(first, <)
                  IN [n \in 1..Len(idx) |-> [c |-> P[idx[n]].c, w |-> RankWeight(P, P[idx[n]].c.r)]]
ControlBadCondenseConserves == PBag(BadCondense(p)) = PBag(p)
ControlBadCondenseOrderIndependent == \A f \in Perms(Len(p)) : PBag(BadCondense(Permuted(p, f))) = PBag(BadCondense(p))
(* expanding ties with weight / (size of the tie) instead of / (size of the tie)! loses weight for ties of 3 and more only: *)
(* with two candidates the two coincide, so this control uses the first-place totals of an expansion that keeps only one order *)
OneOrder(pb) == ImageBag(pb, LAMBDA r : CHOOSE l \in Linearise(r) : TRUE)
ControlOneOrderPreservesFpv == Fpv(OneOrder(Bg), Cand) = Fpv(Bg, Cand)
=============================================================================
