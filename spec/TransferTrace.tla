----------------------------- MODULE TransferTrace -----------------------------
(* Call-level trace validation for fractional_transfer / random_transfer (C03).  *)
(* One trace = one call on a ballot list (duplicates, exhausted ballots, ballots *)
(* not led by the winner) together with one outcome of the random selection and   *)
(* the exact probability of that outcome under the code's draw.                  *)
EXTENDS Transfers, Json, IOUtils, TLC
VARIABLES tid, done
Traces == ndJsonDeserialize(IOEnv.TRACE_FILE)
T == Traces[tid]
SetSeq(js) == [i \in 1..Len(js) |-> ToSet(js[i])]
BagOf(js) == LET S == ToSet(js) IN [r \in {SetSeq(b.r) : b \in S} |-> Rat2((CHOOSE b \in S : SetSeq(b.r) = r).w)]
Write(rec) == Serialize(ToJson(rec) \o "\n", IOEnv.VERDICT_FILE,
                        [format |-> "TXT", charset |-> "UTF-8", openOptions |-> <<"WRITE", "CREATE", "APPEND">>]).exitValue = 0
P == BagOf(T.bag)
Out == BagOf(T.result)
Tally == Rat2(T.tally)
Clause ==
  IF T.error # "" THEN
       (IF T.op = "random" /\ T.nonint /\ T.error = "TypeError" THEN "" ELSE "Error:" \o T.error)
  ELSE IF T.op = "random" /\ T.nonint THEN "NonIntegerAccepted"       \* nonint: some *ballot* of the list has a non-integer weight
  ELSE IF T.winner \in CandsCast(Out) THEN "MentionsWinner"
  ELSE IF RLt(Total(P), Total(Out)) THEN "CreatesVotes"
  ELSE IF T.op = "fractional" THEN (IF Out = FractionalResult(P, T.winner, Tally, T.thr) THEN "" ELSE "Weights")
  ELSE IF T.big THEN (IF IsRandomResult(P, T.winner, Tally, T.thr, Out) THEN "" ELSE "NotASubCollection")   \* piles too large to enumerate
  ELSE LET rs == RandomResults(P, T.winner, Tally, T.thr) IN
       IF ~\E o \in rs : o[1] = Out THEN "NotASubCollection"
       ELSE IF T.p[2] # 0 /\ ~\E o \in rs : o[1] = Out /\ o[2] = Rat2(T.p) THEN "Label"
       ELSE ""
TInit == tid \in 1..Len(Traces) /\ done = FALSE
Advance == /\ ~done
           /\ Clause \in STRING       \* evaluated here, outside the Serialize override: an evaluation error (overflow) is then TLC's, not a silent FALSE
           /\ Write([tid |-> T.id, kind |-> "final", l |-> 0, nrej |-> IF Clause = "" THEN 0 ELSE 1, clause |-> Clause,
                     status |-> T.op, rule |-> T.op, flags |-> <<>>])
           /\ done' = TRUE /\ UNCHANGED tid
TSpec == TInit /\ [][Advance]_<<tid, done>>
=============================================================================
