#!/usr/bin/env python3
"""Copy confirmed seeded changes from /tmp/seed/out into /verif/seeded/<id>/ and regenerate notes/seeded_table.md."""
import os, json, shutil, glob
V = os.path.dirname(os.path.dirname(os.path.abspath(__file__)))
rows = []
for d in sorted(glob.glob("/tmp/seed/out/C*")) + []:
    ev = os.path.join(d, "eval.json")
    if not os.path.exists(ev) or not os.path.exists(os.path.join(d, "meta.json")):
        continue
    e = json.load(open(ev))
    if not e.get("demo_ok"):
        continue
    name = os.path.basename(d)
    dst = os.path.join(V, "seeded", name)
    if os.path.exists(os.path.join(dst, "eval.json")) and name[-1] in "abcdrstu":
        continue        # rounds 1-3 are re-evaluated in place (/verif/seeded/<id>), not from the scratch copies
    os.makedirs(dst, exist_ok=True)
    for f in ("patch.diff", "demo.py", "meta.json", "eval.json"):
        shutil.copy(os.path.join(d, f), os.path.join(dst, f))
for dst in sorted(glob.glob(os.path.join(V, "seeded", "C*"))):
    name = os.path.basename(dst)
    e = json.load(open(os.path.join(dst, "eval.json")))
    m = json.load(open(os.path.join(dst, "meta.json")))
    det = e.get("detected_by", [])
    sigs = []
    for c in det:
        sigs += e["checks"][c]["signatures"][:2]
    tt = e.get("tests", {})
    tests = tt.get("summary", "(agent-run only)")
    if tt and "passed" not in tests:
        tests = "all passed (pytest exit %s, %ss)" % (tt.get("rc"), tt.get("wall_s"))
    what = " ".join(str(m.get("what", "")).split())[:230]
    files = ", ".join(os.path.basename(f) for f in m.get("files", []))[:60]
    rows.append("| %s | %s | %s | %s | %s | %s |" % (name, files, what, ", ".join(det) or "**missed**", "; ".join(sorted(set(sigs)))[:140], tests))
hdr = ("Each change was written by a sub-agent that saw only the property text and a scratch worktree (nothing from /verif). Confirmed here: the patch\n"
       "applies, `demo.py` exits 0 on /repo/src and 1 on the patched tree, the repository's tests still pass on the patched tree (column *tests*), and the\n"
       "quick tier of the check named after the property was run against the patched tree (`tools/eval_seeded.py`, scratch worktree + `VOTEKIT_SRC`).\n\n"
       "| id | file | change | detected by | signatures | tests on patched tree |\n|---|---|---|---|---|---|\n")
open(os.path.join(V, "notes", "seeded_table.md"), "w").write(hdr + "\n".join(rows) + "\n")
print(len(rows), "seeded changes kept")
