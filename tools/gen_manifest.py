#!/usr/bin/env python3
"""Regenerates /verif/MANIFEST.json from the table below (kept in one place so that it stays valid)."""
import json, os
VERIF = os.path.dirname(os.path.dirname(os.path.abspath(__file__)))
BASE_NOTE = ("Assumes TLC 1.8.0 / CommunityModules evaluate the spec correctly; CPython fractions/random and numpy.random follow their "
             "documented laws; the projection in harness/common.py forgets only ballot order, duplicates, ids and placeholders. "
             "Bounded: exhaustive only inside the stated small domains, seeded samples beyond them. Magnitudes outside TLC's 32-bit exact range "
             "(where a check has such inputs) are decided by exact-fraction transcriptions of the same TLA+ definitions, cross-checked against "
             "TLC on the in-range traces of the same run and counted in evidence as python_compared.")
CHECKS = {
 "C01": ("bounded TLC model checking of Election.tla (all rule families) + TLC trace validation of recorded runs of all 18 rules",
         "TLC decides partition / exactly-m / monotone status / bounded rounds / error discipline / termination (weak fairness) for the design over every profile, configuration and random outcome in the bound; every recorded round of the real rules (all random branches enumerated by a scripted RNG) is replayed through the same actions and monitors.", "5 C01"),
 "C02": ("TLC trace validation: every recorded STV/IRV/SequentialRCV round must be a successor of the Election.tla step actions (whole round record + leaving profile compared)",
         "The step relation is written from the statement (quota formulas, >=, transfer value, elimination tie rule); the code's rounds, over all inputs in the bound and all random branches, must be exactly such steps.", "5 C02"),
 "C07": ("TLC invariant DPC (all candidate subsets) on the bounded Droop model + the same invariant evaluated on every validated trace of the real STV/IRV",
         "An oracle that shares nothing with the implementation: decided exhaustively for the design in the bound, transferred to the code by trace validation and evaluated on planted-coalition profiles.", "5 C07"),
 "C08": ("TLC: MC_Symmetry (the spec's building blocks commute with every candidate bijection) + trace validation of many concrete presentations of one abstract input run in subprocesses under different PYTHONHASHSEEDs",
         "Anonymity/representation independence are built into the abstraction (bags over candidate sets), so each renamed / reordered / split / re-seeded presentation must project onto the single behaviour the spec prescribes, and onto the same trace as its siblings.", "5 C08"),
 "C09": ("TLC trace validation: after the recorded rounds, every query answer of a seeded random history must equal the answer Election.tla's recorded rounds imply (QueryClause), purity via snapshots",
         "Histories (with repetition, negative and out-of-range indices) are replayed on finished elections of every rule; TLC recomputes each answer from the rounds it has itself validated.", "5 C09"),
 "C10": ("TLC: probability-labelled actions (RandomOnlyWithTiebreak, ProbSum) + trace validation of recorded tiebreaks with exact conditional probabilities from exhaustive exploration of the code's random draws",
         "Decides that the code's outcome branches only where a tiebreak is recorded and that recorded resolutions are legal orders of genuinely tied sets.", "5 C10"),
 "C03": ("TLC: MC_Transfers (transfer relations stand-alone) + call-level trace validation of fractional_transfer/random_transfer with exact outcome probabilities + Conservation monitor on validated STV traces",
         "Decides the per-ranking transfer weights, sub-collection size and uniformity (hypergeometric label over all outcomes of random.sample) and round-by-round conservation.", "5 C03"),
 "C04": ("TLC: MC_Scoring invariants + call-level trace validation of the scoring utilities (exact equality with Scoring.tla) + trace validation of Plurality/SNTV/Borda elections",
         "Exact rational oracle written from the statement; equality (not closeness) with the code's scores on all tied/partial shapes in the bound and sampled larger ones.", "5 C04"),
 "C05": ("TLC: MC_Rating invariants + call-level trace validation of GeneralRating/Rating/Limited/Cumulative/Approval/BlocPlurality constructions against Rating.tla",
         "Acceptance decided by the four stated conditions on every ballot; totals, winners, recorded tiebreak and error class compared exactly, incl. boundary (== L, == k) and smallest-step violations on any ballot position.", "5 C05"),
 "C06": ("TLC: MC_Pairwise (declarative Smith tiers have the stated properties and equal the reach-count grouping) + call-level trace validation of PairwiseComparisonGraph + DominatingSets/CondoBorda election traces",
         "Declarative tiers decided on the bounded model; the code's margins, tiers and Condorcet answers compared exactly on exhaustive small and tournament-directed profiles.", "5 C06"),
 "C17": ("exact law of the code's random choices (all outcomes of a scripted RNG enumerated) validated by TLC against probability-labelled actions; ProbSum on the bounded model",
         "Distributional claims are decided exactly, not sampled: every step's conditional probability must equal the label of the matching spec action.", "5 C17"),
 "C15": ("TLC: MC_Generators (interval / Bradley-Terry / slate-Bradley-Terry table algebra) + call-level trace validation of interval, combined interval, pdfs_by_bloc and ballot_type_pdf tables as integer numerators over the normaliser",
         "Each table read from the real objects must equal the unnormalised integer weights TLC recomputes from the inputs, entry by entry, with the logged scale equal to the normaliser; sizes beyond TLC's 32-bit range are compared with the same formulas in exact Python fractions (declared in evidence).", "0.7 / notes/C14_C15_report.md"),
 "C18": ("TLC: MC_Loaders (row-count / pattern / column facts on all small tables) + trace validation of load_csv / load_scottish / to_csv on generated files against Loaders.tla",
         "Abstract tables are concretised into CSV text (delimiters, quoting, awkward names), loaded by the real pandas-based loader and the projected profile or error class is compared by TLC with LoadCSV / the Scottish file model.", "0.7 / notes/C18_C19_report.md"),
 "C19": ("TLC: MC_Metrics (metric axioms on triples of small bags, ballot-graph facts) + trace validation of lp_dist values and BallotGraph node / edge sets (n = 2..6) against Metrics.tla",
         "L1 / Linf exactly and p-th powers for p = 2, 3 as rationals; Nodes(n) / Edges(n) from the statement; node weights of loaded profiles.", "0.7 / notes/C18_C19_report.md"),
 "C20": ("TLC: MC_Validation (decision table total, ok iff no precondition violated) + call-level trace validation of single-violation and boundary requests to every constructor / helper against Validation.tla",
         "One named predicate per documented precondition; every request violates exactly one (smallest step and grossly, any ballot position) or sits on the accepted side of the boundary; the outcome class is compared by TLC.", "5 C20"),
 "C11": ("TLC: MC_ProfileADT (condense / equality / addition laws over sequences of weighted ballots, with negative controls) + call-level trace validation of Ballot / PreferenceProfile operations against ProfileADT.tla",
         "A profile is a *sequence* in the value model, so order independence is checked, not assumed; every operation's projected result (and the same multiset in several orders) is compared by TLC.", "0.7 / notes/C11_C12_report.md"),
 "C12": ("TLC: MC_ProfileADT removal / expansion invariants + call-level trace validation of remove_cand, add_missing_cands, expand_tied_ballot, resolve_profile_ties and votekit.cleaning.* against ProfileADT.tla",
         "Per-image-ranking weight conservation, order / grouping preservation and each-linearisation-once are decided by TLC on every recorded call (all removal sets, both flags, three input forms).", "0.7 / notes/C11_C12_report.md"),
 "C14": ("TLC: MC_Generators (declarative Huntington-Hill exists / unique up to ties / monotone) + call-level trace validation of generate_profile outputs of all 16 generator variants against GenVerdict of Generators.tla",
         "Structure is decided per run on seeded real random streams: total weight, whole weights, declared / unrepeated candidates, completeness class, short length, cumulative points, bloc sums, apportionment.", "0.7 / notes/C14_C15_report.md"),
 "C16": ("exact law of each generator's output (every outcome of the scripted random source enumerated) validated by TLC against the probability-labelled draw machines of GenDist.tla; MC_GenDist: laws sum to 1, PL restricted to a slate is PL, detailed balance and irreducibility of the MCMC kernels",
         "Distributional claims are decided exactly, not statistically: the code's law at each parameter point is computed path by path and compared entry by entry; MCMC variants by their kernels (stationarity w.r.t. the exact table + irreducibility); spatial models by scripted positions.", "0.7 / notes/C16_report.md"),
 "C13": ("TLC trace validation of IRV/SNTV/SequentialRCV/TopTwo/Alaska runs against the compositions as defined in Election.tla",
         "The spec defines the aliases and composites as the documented compositions; recorded rounds must match them step by step on every path.", "5 C13"),
}
def entry(pid):
    tech, text, ref = CHECKS[pid]
    return {"property_id": pid, "quick_cmd": "./check %s --tier quick" % pid, "thorough_cmd": "./check %s --tier thorough" % pid,
            "evidence_file": "/verif/evidence/%s.json" % pid, "replay_cmd_template": "./check %s --replay {path}" % pid,
            "engine": "tlc-election" if pid in ELECTION else "tlc", "technique": tech,
            "level_claimed": {"category": "model_checking", "text": text, "design_ref": "DESIGN.md section " + ref},
            "level_note": BASE_NOTE}
ELECTION = {"C01", "C02", "C03", "C04", "C06", "C07", "C10", "C13", "C17"}
ALL = ["C%02d" % i for i in range(1, 21)]
NA_REASON = "not claimed yet: the specification module and conformance driver for this property are not finished in this round"
m = {"version": 1, "setup_cmd": "./check --setup",
     "hooks": {"guard": "VOTEKIT_VERIF", "enable": "no source hooks: the harness wraps Election._run_step and the random sources by attribute replacement inside its own process (VOTEKIT_VERIF=1 is set by the harness, nothing in /repo reads it)",
               "baseline_off_cmd": "cd /repo && /venv/bin/python -m pytest -ra -q -p no:cacheprovider --timeout=900 --continue-on-collection-errors",
               "source_commits": [], "add_only": True},
     "engines": [{"name": "tlc-election", "path": "/verif/spec/Election.tla", "serves_properties": sorted(ELECTION & set(CHECKS)),
                  "kind_free_text": "TLA+ spec of the round-based election state machine; MC_Election.tla (bounded model), ElectionTrace.tla (trace validation)"}],
     "checks": [entry(p) for p in ALL if p in CHECKS],
     "not_applicable": [{"property_id": p, "reason": NA_REASON} for p in ALL if p not in CHECKS],
     "notes": "All checks import VoteKit from /repo/src (never the wheel in /venv). Known findings: /verif/known_findings.json."}
json.dump(m, open(os.path.join(VERIF, "MANIFEST.json"), "w"), indent=1)
print("wrote MANIFEST.json with", len(m["checks"]), "checks")
