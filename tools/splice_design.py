#!/usr/bin/env python3
"""DESIGN.md section 0 is kept in notes/section0.md (+ notes/seeded_table.md, notes/integration.md) and spliced in here."""
import os
V = os.path.dirname(os.path.dirname(os.path.abspath(__file__)))
d = open(os.path.join(V, "DESIGN.md")).read()
s0 = open(os.path.join(V, "notes/section0.md")).read()
def opt(f, default):
    p = os.path.join(V, "notes", f)
    return open(p).read() if os.path.exists(p) else default
s0 = s0.replace("SEEDED_TABLE", opt("seeded_table.md", "(pending)")).replace("INTEGRATION_NOTES", opt("integration.md", "(pending)"))
s0 = s0.replace("SWEEP_TABLE", (opt("sweep_table.md", "(pending)") + "\n\n" + opt("sweep4_table.md", ""))).replace("THOROUGH_TABLE", opt("thorough_table.md", "(pending)"))
B, E = "<!-- S0 BEGIN -->", "<!-- S0 END -->"
block = B + "\n" + s0 + "\n" + E + "\n\n"
if B in d:
    d = d[:d.index(B)] + block + d[d.index(E) + len(E):].lstrip("\n")
else:
    k = d.index("## 1. What is being verified")
    d = d[:k] + block + d[k:]
open(os.path.join(V, "DESIGN.md"), "w").write(d)
print("spliced section 0 (%d lines)" % s0.count("\n"))
