#!/usr/bin/env python3
"""Apply one small semantic edit to a scratch copy of /repo/src and run a check against it.

  tools/mutate.py <PID> <file relative to src/votekit> <old text> <new text> [--tier quick]

The copy lives under /tmp/vk_mut_<pid> and is removed afterwards.  Exit status = status of the check
(1 expected: the mutant must be reported)."""
import sys, os, shutil, subprocess
pid, rel, old, new = sys.argv[1:5]
dst = "/tmp/vk_mut_%d" % os.getpid()
shutil.copytree("/repo/src", dst + "/src")
p = os.path.join(dst, "src/votekit", rel)
s = open(p).read()
if s.count(old) < 1:
    print("pattern not found in", rel); shutil.rmtree(dst); sys.exit(3)
open(p, "w").write(s.replace(old, new, 1))
env = dict(os.environ, VOTEKIT_SRC=dst + "/src", VERIF_OUT=dst + "/out", VERIF_EVID=dst + "/evidence")
r = subprocess.run(["/verif/check", pid] + sys.argv[5:], env=env, capture_output=True, text=True)
shutil.rmtree(dst)
lines = (r.stdout + r.stderr).strip().splitlines()
viol = [l for l in lines if l.startswith("VIOLATION")]
print("exit", r.returncode, "| VIOLATION lines:", len(viol), "|", lines[-1][:200] if lines else "")
for l in lines:
    if l.startswith("  (") :
        print(l[:220]); break
sys.exit(r.returncode)
