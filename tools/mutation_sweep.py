#!/usr/bin/env python3
"""Systematic mutation sweep: apply small semantic edits (AST operators) to the files each property is anchored in, run the
quick tier of the mapped check(s) against a scratch copy (VOTEKIT_SRC), and record which mutants are reported (exit 1),
which survive (exit 0) and which break the machinery (exit 2).

  tools/mutation_sweep.py --out out/sweep.jsonl [--per-target 6] [--seed 0] [--only stv]

Survivors are either equivalent mutants or detection gaps; they are triaged by hand (DESIGN.md 0.6).
The scratch copy lives under /tmp/vk_sweep_<pid> and is removed at the end."""
import ast, os, sys, json, random, shutil, subprocess, time, copy

SRC = "/repo/src/votekit"
E = "elections/election_types/"
# (file, [function or class names or None for whole file], [checks])
TARGETS = [
    (E + "ranking/stv.py", None, ["C02", "C07"]),
    ("elections/transfers.py", None, ["C03"]),
    ("utils.py", ["score_profile_from_rankings", "first_place_votes", "mentions", "borda_scores", "score_dict_to_ranking", "validate_score_vector"], ["C04"]),
    ("utils.py", ["tiebreak_set", "tiebroken_ranking", "elect_cands_from_set_ranking"], ["C10", "C04"]),
    ("utils.py", ["remove_cand", "add_missing_cands", "expand_tied_ballot", "resolve_profile_ties"], ["C12"]),
    ("utils.py", ["score_profile_from_ballot_scores", "ballots_by_first_cand"], ["C05", "C02"]),
    ("models.py", None, ["C09", "C01"]),
    (E + "scores/rating.py", None, ["C05", "C20"]),
    (E + "approval/approval.py", None, ["C05"]),
    ("graphs/pairwise_comparison_graph.py", ["ballot_fill", "head2head_count", "compute_pairwise_dict", "build_graph", "dominating_tiers", "has_condorcet_winner", "get_condorcet_winner"], ["C06"]),
    (E + "ranking/plurality.py", None, ["C04"]),
    (E + "ranking/borda.py", None, ["C04"]),
    (E + "ranking/top_two.py", None, ["C13"]),
    (E + "ranking/alaska.py", None, ["C13"]),
    (E + "ranking/dominating_sets.py", None, ["C06"]),
    (E + "ranking/condo_borda.py", None, ["C06"]),
    (E + "ranking/random_dictator.py", None, ["C17"]),
    (E + "ranking/boosted_random_dictator.py", None, ["C17"]),
    (E + "ranking/abstract_ranking.py", None, ["C20"]),
    ("pref_profile.py", ["condense_ballots", "__eq__", "__add__", "to_ballot_dict", "to_ranking_dict", "to_scores_dict", "find_candidates_cast", "find_num_ballots", "find_total_ballot_wt", "cands_must_be_unique"], ["C11"]),
    ("ballot.py", None, ["C11"]),
    ("cleaning.py", None, ["C12"]),
    ("cvr_loaders.py", None, ["C18"]),
    ("metrics/distances.py", ["lp_dist", "profiles_to_ndarrys"], ["C19"]),
    ("graphs/ballot_graph.py", ["build_graph", "_relabel", "from_profile", "fix_short_ballot"], ["C19"]),
    ("pref_interval.py", None, ["C15"]),
    ("ballot_generator.py", ["sample_cohesion_ballot_types", "slate_PlackettLuce", "name_PlackettLuce", "short_name_PlackettLuce", "name_Cumulative"], ["C16", "C14"]),
    ("ballot_generator.py", ["name_BradleyTerry", "slate_BradleyTerry"], ["C15", "C16", "C14"]),
    ("ballot_generator.py", ["AlternatingCrossover", "CambridgeSampler", "BallotSimplex", "ImpartialCulture", "ballot_pool_to_profile"], ["C16", "C14"]),
    ("ballot_generator.py", ["OneDimSpatial", "Spatial", "ClusteredSpatial"], ["C16", "C14"]),
    ("utils.py", ["ballots_by_first_cand"], ["C02"]),
    (E + "scores/rating.py", ["__init__"], ["C20"]),
]

CMP = {ast.GtE: ast.Gt, ast.Gt: ast.GtE, ast.LtE: ast.Lt, ast.Lt: ast.LtE, ast.Eq: ast.NotEq, ast.NotEq: ast.Eq}
BIN = {ast.Add: ast.Sub, ast.Sub: ast.Add, ast.Mult: ast.Div, ast.Div: ast.Mult}


class Collector(ast.NodeVisitor):
    def __init__(self, names):
        self.names, self.sites, self.depth = names, [], 0 if names is None else None

    def generic_visit(self, node):
        inside = self.names is None or self.depth
        entered = False
        if isinstance(node, (ast.FunctionDef, ast.ClassDef)) and self.names is not None and node.name in self.names:
            self.depth = (self.depth or 0) + 1
            entered = True
        if inside or entered:
            if isinstance(node, ast.Compare) and len(node.ops) == 1 and type(node.ops[0]) in CMP:
                self.sites.append(("cmp", node))
            elif isinstance(node, ast.BinOp) and type(node.op) in BIN and not isinstance(node.left, ast.Constant) or (
                    isinstance(node, ast.BinOp) and type(node.op) in BIN and isinstance(node.right, ast.Constant) and isinstance(node.right.value, (int, float))):
                if not (isinstance(node.left, (ast.JoinedStr,)) or (isinstance(node.left, ast.Constant) and isinstance(node.left.value, str))):
                    self.sites.append(("bin", node))
            elif isinstance(node, ast.BoolOp):
                self.sites.append(("bool", node))
            elif isinstance(node, ast.Subscript) and isinstance(node.slice, ast.UnaryOp) and isinstance(node.slice.op, ast.USub) and \
                    isinstance(node.slice.operand, ast.Constant) and node.slice.operand.value == 1:
                self.sites.append(("idx-1", node))
            elif isinstance(node, ast.Subscript) and isinstance(node.slice, ast.Constant) and node.slice.value == 0:
                self.sites.append(("idx0", node))
            elif isinstance(node, ast.Constant) and isinstance(node.value, int) and not isinstance(node.value, bool) and node.value in (1, 2):
                self.sites.append(("const", node))
            elif isinstance(node, ast.UnaryOp) and isinstance(node.op, ast.Not):
                self.sites.append(("not", node))
            elif isinstance(node, ast.keyword) and node.arg == "reverse":
                self.sites.append(("reverse", node))
        super().generic_visit(node)
        if entered:
            self.depth -= 1


def apply(kind, node):
    if kind == "cmp":
        node.ops[0] = CMP[type(node.ops[0])]()
    elif kind == "bin":
        node.op = BIN[type(node.op)]()
    elif kind == "bool":
        node.op = ast.Or() if isinstance(node.op, ast.And) else ast.And()
    elif kind == "idx-1":
        node.slice = ast.Constant(0)
    elif kind == "idx0":
        node.slice = ast.UnaryOp(ast.USub(), ast.Constant(1))
    elif kind == "const":
        node.value = node.value + 1
    elif kind == "not":
        return "replace-with-operand"
    elif kind == "reverse":
        node.value = ast.UnaryOp(ast.Not(), node.value)


def mutants(path, names, rng, k):
    src = open(path).read()
    tree = ast.parse(src)
    col = Collector(set(names) if names else None)
    col.visit(tree)
    idxs = list(range(len(col.sites)))
    rng.shuffle(idxs)
    out = []
    for i in idxs:
        t2 = ast.parse(src)
        c2 = Collector(set(names) if names else None)
        c2.visit(t2)
        kind, node = c2.sites[i]
        before = ast.unparse(node)
        line = getattr(node, "lineno", 0)
        r = apply(kind, node)
        if r == "replace-with-operand":
            class Rep(ast.NodeTransformer):
                def visit_UnaryOp(self, n):
                    if n is node:
                        return n.operand
                    return self.generic_visit(n)
            t2 = Rep().visit(t2)
        try:
            new_src = ast.unparse(ast.fix_missing_locations(t2))
            compile(new_src, path, "exec")
        except Exception:
            continue
        after = "(removed not)" if r else ast.unparse(node)
        if before == after:
            continue
        out.append({"line": line, "kind": kind, "before": before[:80], "after": after[:80], "src": new_src})
        if len(out) >= k:
            break
    return out


def main():
    args = sys.argv[1:]
    out = args[args.index("--out") + 1] if "--out" in args else "/verif/out/sweep.jsonl"
    per = int(args[args.index("--per-target") + 1]) if "--per-target" in args else 6
    seed = int(args[args.index("--seed") + 1]) if "--seed" in args else 0
    only = args[args.index("--only") + 1] if "--only" in args else None
    rng = random.Random(seed)
    dst = "/tmp/vk_sweep_%d" % os.getpid()
    shutil.copytree("/repo/src", dst + "/src")
    done = set()
    if os.path.exists(out):
        for l in open(out):
            try:
                d = json.loads(l)
                done.add((d["file"], d["line"], d["kind"], d["before"], d["check"]))
            except Exception:
                pass
    try:
        for rel, names, checks in TARGETS:
            if only and only not in rel:
                continue
            path = os.path.join(SRC, rel)
            orig = open(path).read()
            for m in mutants(path, names, rng, per):
                open(os.path.join(dst, "src/votekit", rel), "w").write(m["src"])
                killed = False
                for c in checks:
                    if killed:
                        break          # reported by an earlier mapped check: no need to ask the others
                    key = (rel, m["line"], m["kind"], m["before"], c)
                    if key in done:
                        continue
                    t0 = time.time()
                    env = dict(os.environ, VOTEKIT_SRC=dst + "/src", VERIF_OUT=dst + "/out", VERIF_EVID=dst + "/evidence")
                    try:
                        r = subprocess.run(["/verif/check", c], env=env, capture_output=True, text=True, timeout=1500)
                        rc = r.returncode
                        lines = (r.stdout + r.stderr).strip().splitlines()
                    except subprocess.TimeoutExpired:
                        rc, lines = 124, ["timeout"]
                    sigs = sorted({l.strip()[1:].split(": ")[0] for l in lines if l.startswith("  (")})[:4]
                    rec = {"file": rel, "line": m["line"], "kind": m["kind"], "before": m["before"], "after": m["after"], "check": c,
                           "exit": rc, "signatures": sigs, "wall_s": round(time.time() - t0), "last": (lines[-1][:160] if lines else "")}
                    with open(out, "a") as f:
                        f.write(json.dumps(rec) + "\n")
                    print(json.dumps({k: rec[k] for k in ("file", "line", "kind", "before", "after", "check", "exit")}), flush=True)
                    killed = rc == 1
                open(os.path.join(dst, "src/votekit", rel), "w").write(orig)
    finally:
        shutil.rmtree(dst, ignore_errors=True)


if __name__ == "__main__":
    main()
