#!/bin/bash
# run every check's quick tier with VERIF_SEED=$1 (default 0); one summary line each
cd "$(dirname "$0")/.."
export VERIF_SEED=${1:-0}
for p in C01 C02 C03 C04 C05 C06 C07 C08 C09 C10 C11 C12 C13 C14 C15 C16 C17 C18 C19 C20; do
  s=$(date +%s)
  ./check $p --tier quick > out/quick_${p}_s$VERIF_SEED.log 2>&1
  rc=$?
  echo "$p seed=$VERIF_SEED exit=$rc wall=$(( $(date +%s) - s ))s | $(tail -1 out/quick_${p}_s$VERIF_SEED.log | cut -c1-140)"
done
