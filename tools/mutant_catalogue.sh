#!/bin/bash
# Appendix E mutant catalogue (subset): each line = property | file | old | new.  Results appended to out/mutants.log
cd /verif
run() { echo "== $1 | $2 | $3 -> $4" >> out/mutants.log; nice -n 5 tools/mutate.py "$1" "$2" "$3" "$4" >> out/mutants.log 2>&1; }
S=elections/election_types/ranking/stv.py
run C02 $S "return int(total_ballot_wt / (self.m + 1) + 1)" "return int(total_ballot_wt / (self.m + 1))"
run C02 $S "return int(total_ballot_wt / self.m)  # takes floor" "return int(total_ballot_wt / self.m) + 1"
run C02 $S "if prev_state.scores[c] >= self.threshold:" "if prev_state.scores[c] > self.threshold:"
run C02 $S "lowest_fpv_cands = prev_state.remaining[-1]" "lowest_fpv_cands = prev_state.remaining[0]"
run C02 $S "eliminated_cand = list(tiebroken_ranking[-1])[0]" "eliminated_cand = list(tiebroken_ranking[0])[0]"
run C02 $S "lowest_fpv_cands, self.get_profile(0), tiebreak=\"first_place\"" "lowest_fpv_cands, profile, tiebreak=\"first_place\""
run C13 $S "lambda winner, fpv, ballots, threshold: remove_cand(" "lambda winner, fpv, ballots, threshold: fractional_transfer(winner, fpv, ballots, threshold) if False else remove_cand("
run C07 $S "return int(total_ballot_wt / (self.m + 1) + 1)" "return int(total_ballot_wt / (self.m + 1))"
T=elections/transfers.py
run C03 $T "transfer_value = (fpv - threshold) / fpv" "transfer_value = (fpv - threshold) / threshold"
run C03 $T "            if ballot.ranking[0] == {winner}:
                transfered_weight = ballot.weight * Fraction(transfer_value)" "            if True:
                transfered_weight = ballot.weight * Fraction(transfer_value)"
run C03 $T "min(int(fpv) - threshold, len(transferable_ballots))," "min(int(fpv) - threshold + 1, len(transferable_ballots)),"
run C03 $T "] * int(ballot.weight)" "] * 1"
U=utils.py
run C04 $U "score_vector = list(score_vector) + [0] * (max_length - len(score_vector))" "score_vector = list(score_vector) + [score_vector[-1]] * (max_length - len(score_vector))"
run C04 $U "sum(Fraction(x) for x in local_score_vector) / position_size" "max(Fraction(x) for x in local_score_vector)"
run C04 $U "                    score_to_cand.items(), key=lambda x: x[0], reverse=sort_high_low" "                    score_to_cand.items(), key=lambda x: x[0], reverse=not sort_high_low"
run C01 $U "        if num_elected > m:" "        if num_elected >= m + 1 and len(ranking[i]) > 2:"
run C10 $U "        if tiebreak == \"borda\":
            tiebreak_scores = borda_scores(profile)" "        if tiebreak == \"borda\":
            tiebreak_scores = first_place_votes(profile)"
run C17 $U "frozenset({c}) for c in random.sample(list(r_set), k=len(r_set))" "frozenset({c}) for c in sorted(r_set)"
run C12 $U "weight=ballot.weight / math.factorial(len(s))," "weight=ballot.weight / len(s),"
M=models.py
run C09 $M "for s in state.eliminated[::-1]" "for s in state.eliminated"
run C09 $M "for state in self.election_states[: (round_number + 1)]" "for state in self.election_states[: round_number]"
R=elections/election_types/scores/rating.py
run C05 $R "if sum(b.scores.values()) > self.k:" "if sum(b.scores.values()) >= self.k:"
run C20 $R "        if k > m:" "        if k > m + 1:"
P=graphs/pairwise_comparison_graph.py
run C06 $P "                pairwise_dict[(cand_b, cand_a)] = Fraction(0)" "                pass"
run C06 $P "                elif cand2 in s:
                    break" "                elif cand2 in s and len(rank_list) > 9:
                    break"
run C06 elections/election_types/ranking/condo_borda.py "dt_ranking, self.m, profile, tiebreak=\"borda\"" "dt_ranking, self.m, profile, tiebreak=\"first_place\""
run C17 elections/election_types/ranking/random_dictator.py "random.choices(ballots, weights=weights, k=1)[0]" "random.choices(ballots, k=1)[0]"
run C17 elections/election_types/ranking/boosted_random_dictator.py "p = np.power(p, 2)" "p = np.power(p, 3)"
run C13 elections/election_types/ranking/alaska.py "                self.m_2,
                self.transfer,
                self.quota,
                self.simultaneous,
                self.tiebreak,
            )
            new_profile = stv.get_profile()" "                self.m_1,
                self.transfer,
                self.quota,
                self.simultaneous,
                self.tiebreak,
            )
            new_profile = stv.get_profile()"
run C20 elections/election_types/ranking/abstract_ranking.py "        for ballot in profile.ballots:" "        for ballot in profile.ballots[:1]:"
run C20 $S "if m <= 0 or m > len(profile.candidates):" "if m <= 0 or m > len(profile.candidates) + 1:"
run C08 pref_profile.py "object.__setattr__(self, \"candidates\", tuple(candidates_cast))" "object.__setattr__(self, \"candidates\", tuple(sorted(candidates_cast)))"
echo ALLDONE >> out/mutants.log
