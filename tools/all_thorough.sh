#!/bin/bash
# run every check's thorough tier sequentially; summary lines to stdout
cd "$(dirname "$0")/.."
LIST=${@:-C05 C20 C15 C12 C19 C18 C09 C06 C04 C03 C08 C11 C14 C16 C13 C10 C07 C02 C17 C01}
for p in $LIST; do
  s=$(date +%s)
  ./check $p --tier thorough > out_thorough_$p.log 2>&1
  rc=$?
  echo "$p exit=$rc wall=$(( $(date +%s) - s ))s $(grep -c '^VIOLATION' out_thorough_$p.log) violation-lines | $(tail -1 out_thorough_$p.log | cut -c1-160)"
  grep "^  (" out_thorough_$p.log | sed 's/: .*//' | sort | uniq -c | head -8
done
