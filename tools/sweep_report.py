#!/usr/bin/env python3
"""Summarise out/sweep.jsonl (tools/mutation_sweep.py) into notes/sweep_table.md; survivors are listed with a triage note taken from
notes/sweep_triage.json ({"file:line:kind:before": "note"})."""
import json, os, collections
V = os.path.dirname(os.path.dirname(os.path.abspath(__file__)))
recs = [json.loads(l) for l in open(os.path.join(V, "out", "sweep.jsonl"))]
tri = {}
tp = os.path.join(V, "notes", "sweep_triage.json")
if os.path.exists(tp):
    tri = json.load(open(tp))


def triage(r):
    f, b, a, k = os.path.basename(r["file"]), r["before"], r["after"], r["kind"]
    if k == "const" and b in ("1", "2") and f in ("stv.py", "rating.py", "approval.py", "plurality.py", "borda.py", "alaska.py", "top_two.py", "condo_borda.py",
                                                "dominating_sets.py", "distances.py", "random_dictator.py", "boosted_random_dictator.py"):
        return "default argument value (`m: int = 1`, `p_value = 1`) or the `round_number` field of a round record: neither is fixed by a property (queries index the list of rounds)"
    if "round_number" in b:
        return "`round_number` field of a round record: not observable through any query of C09 (they index the list of rounds)"
    if f == "stv.py" and "m <= 0" in b:
        return "seat-count validation: outside C02's domain (valid m only); reported by C20 (`STV:Accepted:ValueError`)"
    if f == "transfers.py" and "b.ranking" in b:
        return "keeps exhausted ballots (no ranking) in the returned tuple; they carry no continuing ranking and the projection onto bags of rankings drops them (equivalent for C03)"
    if f == "utils.py" and "len(tiebroken)" in b:
        return "pads the tie-broken ranking with empty placeholder sets `frozenset()`, which the projection drops by convention (equivalent)"
    if f == "utils.py" and "i < len(ranking)" in b:
        return "equivalent mutant (the condition is always true at that point)"
    if f == "utils.py" and "b.weight > 0" in b:
        return "keeps zero-weight exhausted ballots in the tuple form; zero weights are projected away (equivalent for the per-ranking weights of C12)"
    if f == "alaska.py" and "round_number <" in b:
        return "bounds check of Alaska.get_profile: C09's matter (`Alaska:Query:Error:IndexError`), not C13's"
    if f == "alaska.py" and "len(self.election_states)" in b:
        return "upper bound check of Alaska.get_profile loosened: the later list indexing still raises IndexError (equivalent for C09)"
    if f == "pref_profile.py" and "tot_weight" in b:
        return "`standardize=True` branch of to_ranking_dict / to_scores_dict: not in C11's statement; reported by C19 through lp_dist (`lp_dist:Value`)"
    if f == "ballot.py" and ("_str" in b or "i + 1" in b):
        return "`__str__` formatting: no property"
    if f == "ballot.py" and "voter_set" in b:
        return "voter sets in Ballot.__eq__: condense / profile equality work on weightless ballots without voter sets (not observable in C11's clauses)"
    if f == "cleaning.py" and "ballots[0]" in b:
        return "equivalent: merge_ballots is only given ballots with one and the same ranking"
    if f == "pref_interval.py":
        return "PreferenceInterval.from_dirichlet / __eq__: outside C15's statement (intervals are passed explicitly)"
    return tri.get("%s:%s:%s:%s" % (r["file"], r["line"], r["kind"], r["before"]), "(not triaged)")


by = collections.Counter(r["exit"] for r in recs)
per = collections.defaultdict(collections.Counter)
for r in recs:
    per[r["file"]][r["exit"]] += 1
lines = ["AST mutation sweep (`tools/mutation_sweep.py`, operators: comparison flip, +/- and */ swap, and/or swap, [-1]<->[0], constant+1, `not` removal,",
         "`reverse=` inversion; 5 sites per target drawn with seed 0; each mutant run against the quick tier of the check its function is anchored in):",
         "**%d mutants: %d reported (exit 1), %d survived (exit 0), %d machinery failures (exit 2/124).**" % (len(recs), by[1], by[0], by[2] + by[124]), "",
         "| file | reported | survived | machinery |", "|---|---|---|---|"]
for f, c in sorted(per.items()):
    lines.append("| %s | %d | %d | %d |" % (f, c[1], c[0], c[2] + c[124]))
lines += ["", "Survivors and their triage:", "", "| mutant | check | triage |", "|---|---|---|"]
for r in recs:
    if r["exit"] != 1:
        key = "%s:%s:%s:%s" % (r["file"], r["line"], r["kind"], r["before"])
        lines.append("| %s:%d `%s` → `%s` | %s (exit %s) | %s |" % (os.path.basename(r["file"]), r["line"], r["before"].replace("|", "\\|")[:60], r["after"].replace("|", "\\|")[:60],
                                                               r["check"], r["exit"], triage(r)))
open(os.path.join(V, "notes", "sweep_table.md"), "w").write("\n".join(lines) + "\n")
print(len(recs), dict(by))
