#!/usr/bin/env python3
"""Summarise out/sweep.jsonl (tools/mutation_sweep.py) into notes/sweep_table.md; survivors are listed with a triage note taken from
notes/sweep_triage.json ({"file:line:kind:before": "note"})."""
import json, os, collections
V = os.path.dirname(os.path.dirname(os.path.abspath(__file__)))
recs = [json.loads(l) for l in open(os.path.join(V, "out", "sweep.jsonl"))]
tri = {}
tp = os.path.join(V, "notes", "sweep_triage.json")
if os.path.exists(tp):
    tri = json.load(open(tp))


def triage(r):
    f, b, a, k = os.path.basename(r["file"]), r["before"], r["after"], r["kind"]
    if k == "const" and b in ("1", "2") and f in ("stv.py", "rating.py", "approval.py", "plurality.py", "borda.py", "alaska.py", "top_two.py", "condo_borda.py",
                                                "dominating_sets.py", "distances.py", "random_dictator.py", "boosted_random_dictator.py"):
        return "default argument value (`m: int = 1`, `p_value = 1`) or the `round_number` field of a round record: neither is fixed by a property (queries index the list of rounds)"
    if "round_number" in b:
        return "`round_number` field of a round record: not observable through any query of C09 (they index the list of rounds)"
    if f == "stv.py" and "m <= 0" in b:
        return "seat-count validation: outside C02's domain (valid m only); reported by C20 (`STV:Accepted:ValueError`)"
    if f == "transfers.py" and "b.ranking" in b:
        return "keeps exhausted ballots (no ranking) in the returned tuple; they carry no continuing ranking and the projection onto bags of rankings drops them (equivalent for C03)"
    if f == "utils.py" and "len(tiebroken)" in b:
        return "pads the tie-broken ranking with empty placeholder sets `frozenset()`, which the projection drops by convention (equivalent)"
    if f == "utils.py" and "i < len(ranking)" in b:
        return "equivalent mutant (the condition is always true at that point)"
    if f == "utils.py" and "b.weight > 0" in b:
        return "keeps zero-weight exhausted ballots in the tuple form; zero weights are projected away (equivalent for the per-ranking weights of C12)"
    if f == "alaska.py" and "round_number <" in b:
        return "bounds check of Alaska.get_profile: C09's matter (`Alaska:Query:Error:IndexError`), not C13's"
    if f == "alaska.py" and "len(self.election_states)" in b:
        return "upper bound check of Alaska.get_profile loosened: the later list indexing still raises IndexError (equivalent for C09)"
    if f == "pref_profile.py" and "tot_weight" in b:
        return "`standardize=True` branch of to_ranking_dict / to_scores_dict: not in C11's statement; reported by C19 through lp_dist (`lp_dist:Value`)"
    if f == "ballot.py" and ("_str" in b or "i + 1" in b):
        return "`__str__` formatting: no property"
    if f == "ballot.py" and "voter_set" in b:
        return "voter sets in Ballot.__eq__: condense / profile equality work on weightless ballots without voter sets (not observable in C11's clauses)"
    if f == "cleaning.py" and "ballots[0]" in b:
        return "equivalent: merge_ballots is only given ballots with one and the same ranking"
    if f == "utils.py" and b in ("1", "2") and r["line"] in (48,):
        return "equivalent: ballots_by_first_cand is only reached after the STV validation has refused every tied position"
    if f == "utils.py" and "first_cand[0]" in b:
        return "equivalent: first_cand is the list of a single-candidate position"
    if f == "boosted_random_dictator.py" and "u <=" in b:
        return "equivalent: u is a continuous uniform draw, `<=` and `<` differ on a set of measure zero"
    if f == "ballot_generator.py" and "number_to_sample" in b:
        return "equivalent: with equality the number of tied fill-up candidates is 0 and the branch changes nothing"
    if f == "ballot_generator.py" and "greater_cand_support" in b:
        return "`_calc_prob` is a helper formula used by the repository's tests only; the samplers draw from `_BT_pdf` (which C15 compares entry by entry)"
    if f == "ballot_generator.py" and b == "m - 1":
        return "equivalent: the extra loop iterations multiply by `val ** 0`"
    if f == "ballot_generator.py" and "self.point[cand]" in b:
        return "equivalent for the law: the product runs over *all* candidates of a complete ranking and is the same for every ranking (BallotSimplex.from_point is uniform whatever the point -- side observation in notes/C16_report.md)"
    if f == "ballot_generator.py" and k == "const":
        return "bloc-count guard of CambridgeSampler / default dimension of the spatial models: no property"
    if f == "pref_interval.py":
        return "PreferenceInterval.from_dirichlet / __eq__: outside C15's statement (intervals are passed explicitly)"
    return tri.get("%s:%s:%s:%s" % (r["file"], r["line"], r["kind"], r["before"]), "(not triaged)")


# one mutant may have been run against several mapped checks: it is reported if any of them reports it
groups = collections.OrderedDict()
for r in recs:
    groups.setdefault((r["file"], r["line"], r["kind"], r["before"], r["after"]), []).append(r)
mut = []
for k, rs in groups.items():
    killed = [r for r in rs if r["exit"] == 1]
    mach = [r for r in rs if r["exit"] not in (0, 1)]
    mut.append({"file": k[0], "line": k[1], "kind": k[2], "before": k[3], "after": k[4], "checks": [r["check"] for r in rs],
                "status": "reported" if killed else ("machinery" if mach else "survived"), "by": [r["check"] for r in killed],
                "sigs": sorted({s for r in killed for s in r["signatures"]})[:3]})
by = collections.Counter(m["status"] for m in mut)
per = collections.defaultdict(collections.Counter)
for m in mut:
    per[m["file"]][m["status"]] += 1
lines = ["AST mutation sweep (`tools/mutation_sweep.py`; operators: comparison flip, +/- and */ swap, and/or swap, [-1]<->[0], constant+1, `not` removal,",
         "`reverse=` inversion; 5 sites per target drawn with seed 0; each mutant is run against the quick tier of the checks its function is anchored in until one",
         "reports it): **%d mutants: %d reported, %d survived, %d machinery failures.**" % (len(mut), by["reported"], by["survived"], by["machinery"]), "",
         "| file | reported | survived | machinery |", "|---|---|---|---|"]
for f, c in sorted(per.items()):
    lines.append("| %s | %d | %d | %d |" % (f, c["reported"], c["survived"], c["machinery"]))
lines += ["", "Survivors and their triage (an equivalent mutant cannot be reported; a gap would be listed as such):", "", "| mutant | checks run | triage |", "|---|---|---|"]
for m in mut:
    if m["status"] != "reported":
        r = {"file": m["file"], "line": m["line"], "kind": m["kind"], "before": m["before"], "after": m["after"]}
        lines.append("| %s:%d `%s` → `%s` | %s (%s) | %s |" % (os.path.basename(m["file"]), m["line"], m["before"].replace("|", "\\|")[:60], m["after"].replace("|", "\\|")[:60],
                                                           ", ".join(m["checks"]), m["status"], triage(r)))
open(os.path.join(V, "notes", "sweep_table.md"), "w").write("\n".join(lines) + "\n")
print(len(mut), dict(by))
