#!/usr/bin/env python3
"""Summarise out/sweep.jsonl (tools/mutation_sweep.py) into notes/sweep_table.md; survivors are listed with a triage note taken from
notes/sweep_triage.json ({"file:line:kind:before": "note"})."""
import json, os, collections
V = os.path.dirname(os.path.dirname(os.path.abspath(__file__)))
recs = [json.loads(l) for l in open(os.path.join(V, "out", "sweep.jsonl"))]
tri = {}
tp = os.path.join(V, "notes", "sweep_triage.json")
if os.path.exists(tp):
    tri = json.load(open(tp))
by = collections.Counter(r["exit"] for r in recs)
per = collections.defaultdict(collections.Counter)
for r in recs:
    per[r["file"]][r["exit"]] += 1
lines = ["AST mutation sweep (`tools/mutation_sweep.py`, operators: comparison flip, +/- and */ swap, and/or swap, [-1]<->[0], constant+1, `not` removal,",
         "`reverse=` inversion; 5 sites per target drawn with seed 0; each mutant run against the quick tier of the check its function is anchored in):",
         "**%d mutants: %d reported (exit 1), %d survived (exit 0), %d machinery failures (exit 2/124).**" % (len(recs), by[1], by[0], by[2] + by[124]), "",
         "| file | reported | survived | machinery |", "|---|---|---|---|"]
for f, c in sorted(per.items()):
    lines.append("| %s | %d | %d | %d |" % (f, c[1], c[0], c[2] + c[124]))
lines += ["", "Survivors and their triage:", "", "| mutant | check | triage |", "|---|---|---|"]
for r in recs:
    if r["exit"] != 1:
        key = "%s:%s:%s:%s" % (r["file"], r["line"], r["kind"], r["before"])
        lines.append("| %s:%d `%s` → `%s` | %s (exit %s) | %s |" % (os.path.basename(r["file"]), r["line"], r["before"].replace("|", "\\|")[:60], r["after"].replace("|", "\\|")[:60],
                                                               r["check"], r["exit"], tri.get(key, "(not triaged)")))
open(os.path.join(V, "notes", "sweep_table.md"), "w").write("\n".join(lines) + "\n")
print(len(recs), dict(by))
