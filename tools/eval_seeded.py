#!/usr/bin/env python3
"""Confirm an independently written breaking change and run the checks against it.

  tools/eval_seeded.py /tmp/seed/out/C02_a [--tests] [--checks C02,C01] [--tier quick]

1. a scratch worktree of /repo is created under /tmp/seedeval_<pid> and the patch applied there (never to /repo itself:
   other work imports /repo/src concurrently; VOTEKIT_SRC points the checks at the scratch tree instead);
2. demo.py must exit 0 on /repo/src and 1 on the patched tree;
3. with --tests the repository's own tests are run on the patched tree (they must still pass);
4. the checks of the named properties (default: the property in meta.json) are run against the patched tree;
5. the result is written to <dir>/eval.json;  the worktree is removed.
"""
import sys, os, json, subprocess, shutil, time

d = os.path.abspath(sys.argv[1])
args = sys.argv[2:]
meta = json.load(open(os.path.join(d, "meta.json")))
prop = meta.get("property", os.path.basename(d).split("_")[0])[:3]
checks = [prop]
# changes filed by their author under one property whose statement is another's (see DESIGN 0.6): the owning check is run first
OWNER = {"C13_y": ["C09", "C13"], "C13_l": ["C09", "C13"], "C20_h": ["C03", "C20"], "C07_n": ["C03", "C07"]}
checks = OWNER.get(os.path.basename(d.rstrip("/")), checks)
tier = "quick"
for i, a in enumerate(args):
    if a == "--checks":
        checks = args[i + 1].split(",")
    if a == "--tier":
        tier = args[i + 1]
wt = "/tmp/seedeval_%d" % os.getpid()
subprocess.run(["git", "-C", "/repo", "worktree", "add", "-q", "--detach", wt, "HEAD"], check=True)
res = {"dir": d, "property": prop, "at_commit": subprocess.run(["git", "-C", "/repo", "rev-parse", "--short", "HEAD"], capture_output=True, text=True).stdout.strip()}
try:
    ap = subprocess.run(["git", "-C", wt, "apply", os.path.join(d, "patch.diff")], capture_output=True, text=True)
    res["patch_applies"] = ap.returncode == 0
    if ap.returncode != 0:
        res["patch_error"] = ap.stderr[-500:]
    else:
        def demo(src):
            env = dict(os.environ, VOTEKIT_SRC=src, PYTHONPATH=src + ":/tmp/seed/shims:/verif/harness/shims")
            try:
                r = subprocess.run(["/venv/bin/python", os.path.join(d, "demo.py")], env=env, capture_output=True, text=True, timeout=900)
                return r.returncode, (r.stdout + r.stderr)[-400:]
            except subprocess.TimeoutExpired:
                return 124, "timeout"
        res["demo_unchanged"], _ = demo("/repo/src")
        res["demo_changed"], res["demo_changed_out"] = demo(wt + "/src")
        res["demo_ok"] = res["demo_unchanged"] == 0 and res["demo_changed"] not in (0, 124)
        if "--tests" in args:
            env = dict(os.environ, PYTHONPATH=wt + "/src:/verif/harness/shims", PYTHONHASHSEED="0")   # tests/test_pref_profile.py::test_create_df depends on the hash seed on unchanged code
            t0 = time.time()
            r = subprocess.run(["/venv/bin/python", "-m", "pytest", "-q", "-p", "no:cacheprovider", "-n", "8", "-x"], cwd=wt, env=env, capture_output=True, text=True)
            import re as _re
            cand = [l for l in r.stdout.strip().splitlines() if _re.search(r"\d+ (passed|failed|error)", l)]
            tail = (cand or r.stdout.strip().splitlines() or [""])[-1]
            res["tests"] = {"rc": r.returncode, "summary": tail, "wall_s": round(time.time() - t0)}
        _old = json.load(open(os.path.join(d, "eval.json"))) if os.path.exists(os.path.join(d, "eval.json")) else {}
        if "tests" not in res and "tests" in _old:
            res["tests"] = _old["tests"]           # an earlier run of the repository's tests on this patch stays on record
        if _old.get("checks") and not _old.get("detected_by") and "first_version_missed" not in _old:
            res["first_version_missed"] = _old["checks"]
        elif "first_version_missed" in _old:
            res["first_version_missed"] = _old["first_version_missed"]
        res["checks"] = {}
        if "--no-checks" in args:
            checks = []
            old = json.load(open(os.path.join(d, "eval.json"))) if os.path.exists(os.path.join(d, "eval.json")) else {}
            res["checks"] = old.get("checks", {})
        for c in checks:
            env = dict(os.environ, VOTEKIT_SRC=wt + "/src", VERIF_TIER=tier, VERIF_OUT=wt + "/.verif_out", VERIF_EVID=wt + "/.verif_evid")
            t0 = time.time()
            r = subprocess.run(["/verif/check", c, "--tier", tier], env=env, capture_output=True, text=True)
            lines = (r.stdout + r.stderr).strip().splitlines()
            sigs = sorted({l.strip()[1:].split(":")[0] + ":" + ":".join(l.strip()[1:].split(":")[1:3]) for l in lines if l.startswith("  (")})
            res["checks"][c] = {"exit": r.returncode, "violation_lines": len([l for l in lines if l.startswith("VIOLATION")]),
                                "signatures": [l.strip()[1:].split(": ")[0] for l in lines if l.startswith("  (")][:6], "last": lines[-1][:200] if lines else "",
                                "wall_s": round(time.time() - t0)}
            # evidence written by a run against a mutant must not stay behind
        res["detected_by"] = [c for c, v in res["checks"].items() if v["exit"] == 1]
finally:
    subprocess.run(["git", "-C", "/repo", "worktree", "remove", "--force", wt], capture_output=True)
    shutil.rmtree(wt, ignore_errors=True)
json.dump(res, open(os.path.join(d, "eval.json"), "w"), indent=1)
print(json.dumps({k: v for k, v in res.items() if k in ("dir", "patch_applies", "demo_ok", "demo_unchanged", "demo_changed", "tests", "detected_by")}))
for c, v in res.get("checks", {}).items():
    print("  ", c, "exit", v["exit"], v["signatures"][:3], v["last"][:120])
