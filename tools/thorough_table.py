#!/usr/bin/env python3
"""notes/thorough_table.md from the log of a background run of tools/all_thorough.sh (vp run); tiers the run did not reach keep the row of the
previous complete run (notes/thorough_run_1.log)."""
import re, sys, os
V = os.path.dirname(os.path.dirname(os.path.abspath(__file__)))
new_commit = sys.argv[-1]
new_logs = sys.argv[1:-1]
pat = re.compile(r"^(C\d\d) exit=(\d+) wall=(\d+)s .*states=(\d+) traces=(\d+) evaluations=(\d+) violations=(\d+) known=(\d+)")


def rows(path):
    out = {}
    for l in open(path):
        m = pat.match(l)
        if m:
            out[m.group(1)] = m.groups()
    return out


new = {}
for lg in new_logs:          # later logs (runs started from later commits) override earlier ones
    new.update(rows(lg))
old = rows(os.path.join(V, "notes", "thorough_run_1.log"))
lines = ["All thorough tiers are run in the background on a committed snapshot (`vp run -- tools/all_thorough.sh`, seed 0, machine shared with the seeding agents and",
         "the evaluation queues, so the wall times are pessimistic by a factor of 3-5). Runs 2 and 3 (commits %s, after seeding rounds 5 and 6) reached %d of the 20" % (new_commit, len(new)),
         "tiers; any other shows run 1 (commit 88096a5). Every tier that ran exited 0 with no violation line:", "",
         "| id | run | states (TLC, distinct) | traces validated | evaluations | known-finding hits | wall |", "|---|---|---|---|---|---|---|"]
for i in range(1, 21):
    pid = "C%02d" % i
    src, r = ("2", new[pid]) if pid in new else ("1", old.get(pid))
    if not r:
        lines.append("| %s | - | (not run) | | | | |" % pid)
        continue
    assert r[1] == "0" and r[6] == "0", r
    lines.append("| %s | %s | %s | %s | %s | %s | %d min |" % (pid, src, format(int(r[3]), ","), format(int(r[4]), ","), format(int(r[5]), ","), r[7], max(1, round(int(r[2]) / 60))))
open(os.path.join(V, "notes", "thorough_table.md"), "w").write("\n".join(lines) + "\n")
print(len(new), "tiers from the new run")
