"""Run ElectionTrace.tla over a batch of recorded traces and collect the spec-written verdicts."""
import os, json, re
from .common import run_tlc, write_ndjson, read_ndjson, in_arith_range, Machinery, tlc_error_excerpt, OUT

ALL_MONITORS = ["MonRound0", "MonThreshold0", "MonPartition", "MonExactlySeats", "MonBounded", "MonConservation", "MonRandomTie",
                "MonTiebreaks", "MonDPC"]


def _one(module, cfg, workdir, k, chunk):
    wd = os.path.join(workdir, "p%d" % k)
    os.makedirs(wd, exist_ok=True)
    tf = os.path.join(wd, "traces.ndjson")
    vf = os.path.join(wd, "verdicts.ndjson")
    if os.path.exists(vf):
        os.remove(vf)
    chunk = list(chunk)
    dropped = []
    agg = None
    for attempt in range(12):
        if os.path.exists(vf):
            os.remove(vf)
        write_ndjson(tf, [{a: b for a, b in t.items() if not a.startswith("_")} for t in chunk])
        r = run_tlc(module, cfg, wd, env={"TRACE_FILE": tf, "VERDICT_FILE": vf}, workers=1, short=True)
        if agg is None:
            agg = r
        else:
            for k in ("states", "distinct", "wall"):
                r[k] += agg[k]
            agg = r
        if r["hard"] != "overflow":
            break
        # TLC aborts (never wraps) when an intermediate value of the *specification's own* computation leaves the 32-bit range.
        # That depends only on the trace's inputs, not on what the code logged: the trace is outside TLC's exact range and is
        # counted as skipped, the rest of the batch is validated again.
        m = re.search(r"tid = (\d+)", r["out"])
        if not m:
            break
        pos = int(m.group(1))
        if not (1 <= pos <= len(chunk)):
            break
        dropped.append(chunk.pop(pos - 1))
        r["hard"] = None
        r["rc"] = 0
        if not chunk:
            break
    vs = read_ndjson(vf) if chunk else []
    if not os.environ.get("KEEP_TRACES") and os.path.exists(tf):
        os.remove(tf)
    agg["dropped"] = dropped
    return agg, vs


def validate(traces, workdir, monitors=ALL_MONITORS, procs=16, module="ElectionTrace", spec="TSpec", per_proc=1500,
             exact_expected=None, bound=None):
    """Validate a batch of traces with TLC.  The batch is split over `procs` single-worker TLC processes
    (trace validation is one short behaviour per trace: separate JVMs scale linearly, TLC's shared queue does not).
    returns (verdicts: {id: {"final": rec, "rejects": [...], "monitors": [...]}}, stats, traces by id)"""
    from concurrent.futures import ThreadPoolExecutor
    os.makedirs(workdir, exist_ok=True)
    ok, skipped, inexact = [], 0, []
    for i, t in enumerate(traces):
        t["id"] = i + 1
        if in_arith_range({a: b for a, b in t.items() if not a.startswith("_")}, *([bound] if bound else [])):
            ok.append(t)
        elif exact_expected and exact_expected(t) and not t.get("_wide"):
            inexact.append(t)      # small exact inputs, no fractional transfer: such a value cannot be a correct exact result
        else:
            skipped += 1
    verdicts = {}
    stats = {"states": 0, "distinct": 0, "wall": 0.0, "runs": 0, "skipped_arith": skipped, "inexact": inexact}
    cfg = "SPECIFICATION %s\n" % spec + "".join("INVARIANT %s\n" % m for m in monitors) + "CHECK_DEADLOCK FALSE\n"
    if not ok:
        return verdicts, stats, {}
    nchunks = max(1, min(len(ok), max(procs, (len(ok) + per_proc - 1) // per_proc)))
    chunks = [ok[k::nchunks] for k in range(nchunks)]
    import time as _t
    t0 = _t.time()
    with ThreadPoolExecutor(max_workers=procs) as ex:
        results = list(ex.map(lambda kc: _one(module, cfg, workdir, kc[0], kc[1]), enumerate(chunks)))
    stats["wall"] = _t.time() - t0
    overflowed = set()
    for r, vs in results:
        for t in r.get("dropped", []):
            overflowed.add(t["id"])
            stats["skipped_arith"] += 1
        stats["states"] += r["states"]
        stats["distinct"] += r["distinct"]
        stats["runs"] += 1
        if r["hard"] or r["violated"] or r["rc"] != 0:
            raise Machinery("TLC failed on trace batch (%s):\n%s" % (r["hard"] or r["violated"], tlc_error_excerpt(r["out"])))
        for v in vs:
            d = verdicts.setdefault(v["tid"], {"final": None, "rejects": [], "monitors": []})
            if v["kind"] == "final":
                if d["final"] is not None:
                    raise Machinery("two final verdicts for trace %s" % v["tid"])
                d["final"] = v
            elif v["kind"] == "reject":
                d["rejects"].append(v)
            else:
                if not any(m["clause"] == v["clause"] for m in d["monitors"]):
                    d["monitors"].append(v)
    ok = [t for t in ok if t["id"] not in overflowed]
    for t in ok:
        if t["id"] not in verdicts or verdicts[t["id"]]["final"] is None:
            raise Machinery("no final verdict for trace %s (verdicts must be total)" % t["id"])
    return verdicts, stats, {t["id"]: t for t in ok}


def problems(v):
    """list of (clause, l) for a verdict entry: step rejections, terminal clause, failing monitors"""
    out = [(r["clause"], r["l"]) for r in v["rejects"]]
    if v["final"]["clause"]:
        out.append((v["final"]["clause"], v["final"]["l"]))
    out += [(m["clause"], m["l"]) for m in v["monitors"]]
    return out
