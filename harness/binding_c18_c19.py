"""Binding demonstration for C18 / C19: take traces of the real code that the specification accepts, corrupt ONE logged
field, and show that TLC then rejects the trace with the expected clause.

    cd /verif && /venv/bin/python -m harness.binding_c18_c19

exit 0 iff every original trace is accepted and every corrupted one is rejected.
"""
import copy, json, os, sys
from .common import OUT, load_votekit
from . import etrace


def pub(t):
    return {k: v for k, v in t.items() if not k.startswith("_")}


def verdicts(module, traces, wd):
    vs, stats, byid = etrace.validate([copy.deepcopy(t) for t in traces], wd, monitors=[], module=module)
    return [vs[i + 1]["final"]["clause"] for i in range(len(traces))]


def c18_cases():
    from .drivers import c18
    os.makedirs(c18.FILES, exist_ok=True)
    conc = {"names": {"a": "Bob Smith", "b": "b,c"}, "ids": {}, "delim": ";", "pass_delim": True, "quote_all": False, "eol": "\n",
            "header": ["r1", "r2"], "ragged": False, "pass_empty_rank": False, "shape": "table"}
    csv_in = {"kind": "csv", "exists": True, "table": [["a", "b"], ["a", "b"], ["b", ""]], "cfg": {"rank": [2, 1], "id": 0, "weight": 0}, "conc": conc}
    scot_in = {"kind": "scot", "variant": "ok",
               "file": {"exists": True, "content": True, "meta": [2, 1], "ballots": [{"w": 5, "prefs": [2, 1]}, {"w": 2, "prefs": [1]}, {"w": 1, "prefs": [2, 1]}],
                        "cands": [["a", "p1"], ["b", "p2"]], "ward": ["w1"]},
               "conc": {"names": {"a": "Paul", "b": "Geo, \"G\""}, "parties": {"p1": "Orange (O)", "p2": "Red (R)", "p3": "x", "p4": "y"}, "wards": {"w1": "Ward 3"},
                        "trailing": 1, "blank_rows": 0.3, "layout_seed": 5, "blank_text": ""}}
    tocsv_in = {"kind": "tocsv", "cands": ["A", "B"], "names": {"A": "zoë", "B": "\"q\""},
                "ballots": [{"r": [["A"], ["B"]], "w": [3, 2], "s": []}, {"r": [["A", "B"]], "w": [1, 3], "s": [["A", [2, 1]]]}]}
    t_csv, t_scot, t_to = (pub(c18.work((i, x))) for i, x in enumerate((csv_in, scot_in, tocsv_in)))

    def mut(t, f):
        t = copy.deepcopy(t)
        f(t)
        return t

    cases = [("csv original", t_csv, ""), ("scot original", t_scot, ""), ("tocsv original", t_to, ""),
             ("csv: one ballot weight +1", mut(t_csv, lambda t: t["ballots"][0]["w"].__setitem__(0, t["ballots"][0]["w"][0] + 1)), "Weights"),
             ("csv: blank position replaced by a candidate", mut(t_csv, lambda t: [b["r"].__setitem__(b["r"].index(""), "a") for b in t["ballots"] if "" in b["r"]]), "Patterns"),
             ("csv: columns logged in table order, not rank_cols order", mut(t_csv, lambda t: [b["r"].reverse() for b in t["ballots"]]), "Patterns"),
             ("csv: one ballot split in two", mut(t_csv, lambda t: t["ballots"].append(copy.deepcopy(t["ballots"][0]))), "PatternSplit"),
             ("csv: an error logged", mut(t_csv, lambda t: t.__setitem__("error", "ValueError")), "Error:ValueError"),
             ("scot: seats + 1", mut(t_scot, lambda t: t["out"].__setitem__("seats", t["out"]["seats"] + 1)), "Seats"),
             ("scot: parties swapped", mut(t_scot, lambda t: t["out"].__setitem__("party", [[t["out"]["party"][0][0], t["out"]["party"][1][1]], [t["out"]["party"][1][0], t["out"]["party"][0][1]]])), "Parties"),
             ("scot: multiplicity not summed", mut(t_scot, lambda t: [b["w"].__setitem__(0, 5) for b in t["ballots"] if b["w"][0] == 6]), "Weights"),
             ("scot: ward changed", mut(t_scot, lambda t: t["out"].__setitem__("ward", "w2")), "Ward"),
             ("tocsv: a row dropped", mut(t_to, lambda t: t["rows"].pop()), "RowCount"),
             ("tocsv: a weight changed", mut(t_to, lambda t: t["rows"][0].__setitem__("w", [2, 1])), "Rows"),
             ("tocsv: a score changed", mut(t_to, lambda t: t["rows"][1]["s"][0].__setitem__(1, [5, 2])), "Rows")]
    return "LoadersTrace", cases


def c19_cases():
    from .drivers import c19
    lp_in = {"kind": "lp", "cands": ["A", "B", "C"], "vseed": 3, "p": 1,
             "a": [{"r": [["A"], ["B"]], "w": [1, 1]}, {"r": [["B"]], "w": [2, 1]}],
             "b": [{"r": [["A"], ["B"]], "w": [1, 2]}, {"r": [["C"], ["A"]], "w": [1, 1]}],
             "c": [{"r": [["B"]], "w": [3, 1]}, {"r": [["C"], ["A"]], "w": [1, 1]}]}
    lp2_in = dict(lp_in, p=2)
    g_in = {"kind": "graph", "n": 4, "full": False, "src": "int"}
    w_in = {"kind": "weights", "cands": ["A", "B", "C"], "fix": True, "via": "ctor",
            "a": [{"r": [["A"], ["B"]], "w": [1, 1]}, {"r": [["B"]], "w": [2, 1]}, {"r": [["A"], ["B"], ["C"]], "w": [1, 2]}]}
    t_lp, t_lp2, t_g, t_w = (pub(c19.work(x)) for x in (lp_in, lp2_in, g_in, w_in))

    def mut(t, f):
        t = copy.deepcopy(t)
        f(t)
        return t

    def bump(v):
        v["v"] = [v["v"][0] + 1, v["v"][1]]

    cases = [("lp original (p=1)", t_lp, ""), ("lp original (p=2)", t_lp2, ""), ("graph original (n=4)", t_g, ""), ("weights original", t_w, ""),
             ("lp: d(a,b) numerator + 1", mut(t_lp, lambda t: bump(t["vals"]["ab"])), "Value"),
             ("lp: d(b,a) differs from d(a,b)", mut(t_lp, lambda t: bump(t["vals"]["ba"])), "Symmetry"),
             ("lp: distance changes after reordering", mut(t_lp, lambda t: bump(t["vars"][0])), "Variant:reorder"),
             ("lp: d(a, rescaled a) not zero", mut(t_lp, lambda t: bump(t["selfs"][2])), "Zero:rescale"),
             ("lp: float not reconstructible", mut(t_lp, lambda t: t["vals"]["ac"].__setitem__("ok", False)), "Inexact"),
             ("lp p=2: numeric root triangle flag false", mut(t_lp2, lambda t: t.__setitem__("tri", False)), "TriangleNumeric"),
             ("graph: one edge removed", mut(t_g, lambda t: t["edges"].pop(7)), "Edges"),
             ("graph: node of length n-1 present", mut(t_g, lambda t: t["nodes"].append([1, 2, 3])), "Nodes"),
             ("graph: extra edge between two bullet votes", mut(t_g, lambda t: t["edges"].append([[1], [2]])), "Edges"),
             ("weights: weight put on the uncompleted short ballot", mut(t_w, lambda t: [x.__setitem__(0, ["A", "B"]) for x in t["nodew"] if x[0] == ["A", "B", "C"]]), "NodeWeights"),
             ("weights: total differs", mut(t_w, lambda t: t.__setitem__("total", [3, 1])), "TotalWeight")]
    return "MetricsTrace", cases


def main():
    load_votekit()
    bad = 0
    for name, mk in (("C18", c18_cases), ("C19", c19_cases)):
        module, cases = mk()
        got = verdicts(module, [c[1] for c in cases], os.path.join(OUT, "binding_" + name))
        for (label, _, want), g in zip(cases, got):
            ok = (g == want)
            bad += not ok
            print("%s  %-62s verdict=%-18r expected=%r" % ("ok " if ok else "BAD", label, g or "accepted", want or "accepted"))
    print("binding demonstration:", "all as expected" if not bad else "%d unexpected" % bad)
    return 1 if bad else 0


if __name__ == "__main__":
    sys.exit(main())
