"""Recorder for election runs: run the real rule, project every recorded round (and the profile
returned by each _run_step) onto the abstract state, and produce trace dicts for ElectionTrace.tla.

No source hooks: `_run_step` of every Election subclass is wrapped by class-attribute replacement
inside this process.  The linearisation point of a round is the append to election_states, i.e.
the return of _run_step(store_states=True).
"""
import itertools, json
from fractions import Fraction as F
from .common import load_votekit, rat, groups, bag_json, state_json, scores_json, quiet, Machinery, RAT_BOUND
from . import rng
from .rng import EX, TooManyPaths, ReplayDiverged

load_votekit()
from votekit import Ballot, PreferenceProfile  # noqa: E402
import votekit.elections as VE  # noqa: E402
from votekit.models import Election  # noqa: E402

RANKING_RULES = ["STV", "IRV", "SequentialRCV", "Plurality", "SNTV", "Borda", "TopTwo", "Alaska",
                 "DominatingSets", "CondoBorda", "RandomDictator", "BoostedRandomDictator", "PluralityVeto"]


class NonTermination(BaseException):
    pass


_LOG = []          # (object, returned profile, threshold) for every _run_step(store_states=True)
_CREATED = []      # election objects in order of first step
_CAP = [64]
_VORDER = {}       # PluralityVeto only: id(object) -> voter order after each recorded step


def _voter_order(e):
    """the voters (unit ballots) of a PluralityVeto object in the order in which they will be asked next, as concrete rankings"""
    out = []
    for i in e.random_order:
        b = e.ballot_list[i]
        out.append([sorted(s) for s in (b.ranking or ()) if len(s)])
    return out
_wrapped = False


def _all_subclasses(c):
    for s in c.__subclasses__():
        yield s
        yield from _all_subclasses(s)


def install_recorder():
    global _wrapped
    if _wrapped:
        return
    for cls in set(_all_subclasses(Election)):
        if "_run_step" not in cls.__dict__:
            continue
        orig = cls.__dict__["_run_step"]

        def make(orig):
            def wrap(self, profile, prev_state, store_states=False):
                if store_states:
                    if not any(o is self for o in _CREATED):
                        _CREATED.append(self)
                        if hasattr(self, "random_order") and hasattr(self, "ballot_list"):
                            _VORDER[id(self)] = [_voter_order(self)]        # the order the first round starts from
                    if len(self.election_states) > _CAP[0]:
                        raise NonTermination()
                out = orig(self, profile, prev_state, store_states)
                if store_states:
                    _LOG.append((self, out, getattr(self, "threshold", -1)))
                    if hasattr(self, "random_order") and hasattr(self, "ballot_list"):
                        _VORDER.setdefault(id(self), []).append(_voter_order(self))
                return out
            wrap.__wrapped__ = orig
            return wrap

        setattr(cls, "_run_step", make(orig))
    _wrapped = True


def base_cfg(**kw):
    c = {"rule": "STV", "m": 1, "quota": "droop", "simul": True, "xfer": "fractional", "tb": "none", "m1": 0, "vec": []}
    c.update(kw)
    return c


def build_profile(cands, ballots, names=None, cand_order=None):
    """ballots: list of {"r": [[c,..],..], "w": [n,d]}; names: abstract -> concrete"""
    nm = names or {c: c for c in cands}
    bl = []
    for b in ballots:
        rk = tuple(frozenset(nm[c] for c in pos) for pos in b["r"])
        # a ranked ballot may also carry scores ("s"); ranking rules are documented to read the ranking only
        kw = {"scores": {nm[c]: F(v[0], v[1]) for c, v in b["s"]}} if b.get("s") else {}
        bl.append(Ballot(ranking=rk, weight=F(b["w"][0], b["w"][1]), **kw))
    order = cand_order or list(cands)
    return PreferenceProfile(ballots=tuple(bl), candidates=tuple(nm[c] for c in order))


DEFAULTS = {"m": 1, "quota": "droop", "simul": True, "tb": "none", "xfer": "fractional", "m1": 2}


def _full_transfer(winner, fpv, ballots, threshold):
    from votekit.utils import remove_cand
    return remove_cand(winner, tuple(ballots))


def constructor(cfg, profile, omit_defaults=False):
    """the constructor call of the rule; with omit_defaults every argument whose value is the documented default is left out, so that the
    defaults themselves (m=1, quota='droop', simultaneous=True, transfer=fractional_transfer, tiebreak=None, m_1=2, m_2=1) are exercised"""
    r = cfg["rule"]
    tb = None if cfg["tb"] == "none" else cfg["tb"]
    # "full": a user-supplied transfer callable (the documented signature: winner, tally, ballots led by the winner, threshold) that hands
    # every ballot on at full weight -- the rule SequentialRCV is documented to be, here given to STV / Alaska through `transfer=`
    xfer = {"fractional": VE.fractional_transfer, "random": VE.random_transfer, "full": _full_transfer}.get(cfg["xfer"])

    def kw(**k):
        names = {"m": "m", "quota": "quota", "simultaneous": "simul", "tiebreak": "tb", "transfer": "xfer", "m_1": "m1", "m_2": "m"}
        out = {}
        for a, v in k.items():
            if omit_defaults and cfg[names[a]] == DEFAULTS[names[a]] and not (a == "m" and r in ("RandomDictator", "BoostedRandomDictator", "PluralityVeto")):
                continue
            out[a] = v
        return out

    if r == "STV":
        return lambda: VE.STV(profile, **kw(m=cfg["m"], transfer=xfer, quota=cfg["quota"], simultaneous=cfg["simul"], tiebreak=tb))
    if r == "IRV":
        return lambda: VE.IRV(profile, **kw(quota=cfg["quota"], tiebreak=tb))
    if r == "SequentialRCV":
        return lambda: VE.SequentialRCV(profile, **kw(m=cfg["m"], quota=cfg["quota"], simultaneous=cfg["simul"], tiebreak=tb))
    if r in ("Plurality", "SNTV"):
        return lambda: getattr(VE, r)(profile, **kw(m=cfg["m"], tiebreak=tb))
    if r == "Borda":
        vec = [F(x[0], x[1]) for x in cfg["vec"]] or None
        return lambda: VE.Borda(profile, score_vector=vec, **kw(m=cfg["m"], tiebreak=tb))
    if r == "TopTwo":
        return lambda: VE.TopTwo(profile, **kw(tiebreak=tb))
    if r == "Alaska":
        return lambda: VE.Alaska(profile, **kw(m_1=cfg["m1"], m_2=cfg["m"], transfer=xfer, quota=cfg["quota"], simultaneous=cfg["simul"], tiebreak=tb))
    if r == "DominatingSets":
        return lambda: VE.DominatingSets(profile)
    if r == "CondoBorda":
        return lambda: VE.CondoBorda(profile, **kw(m=cfg["m"]))
    if r in ("RandomDictator", "BoostedRandomDictator"):
        return lambda: getattr(VE, r)(profile, m=cfg["m"])
    if r == "PluralityVeto":
        return lambda: VE.PluralityVeto(profile, m=cfg["m"], **kw(tiebreak=tb))
    raise Machinery("unknown rule " + r)


def run_once(cfg, cands, ballots, names=None, cand_order=None, keep_obj=False, omit_defaults=False):
    """one run of the real code -> (header fields, events[, election]); random draws come from whatever source is active"""
    install_recorder()
    nm = names or {c: c for c in cands}
    inv = {v: k for k, v in nm.items()}
    del _LOG[:]
    del _CREATED[:]
    _VORDER.clear()
    _CAP[0] = 2 * len(cands) + 6      # BoundedRounds allows len(cands) + 2 states; beyond the cap the run is a NonTermination event
    err = None
    e = None
    marks = []
    with quiet():
        try:
            profile = build_profile(cands, ballots, nm, cand_order)
            e = constructor(cfg, profile, omit_defaults)()
        except NonTermination:
            err = "NonTermination"
        except Exception as ex:  # noqa
            err = type(ex).__name__
            if err == "ValidationError":
                err = "ValueError"
            errmsg = str(ex)[:200]
    main = e if e is not None else (_CREATED[0] if _CREATED else None)
    events, round0, thr0 = [], None, -1
    if main is not None:
        round0 = state_json(main.election_states[0], main._profile, inv=inv)
        if cfg["rule"] in ("STV", "IRV", "SequentialRCV"):
            thr0 = int(main.threshold)
        if cfg["rule"] == "Alaska":
            own = [(o, p, t) for (o, p, t) in _LOG if o is main]
            if own:
                events.append(state_json(main.election_states[1], own[0][1], -1, inv=inv))
            inner = [o for o in _CREATED if type(o).__name__ == "STV" and o is not main]
            if inner:
                st = inner[-1]
                profs = [(p, t) for (o, p, t) in _LOG if o is st]
                for s, (p, t) in zip(st.election_states[1:], profs):
                    events.append(state_json(s, p, t, inv=inv))
        else:
            profs = [(p, t) for (o, p, t) in _LOG if o is main]
            for s, (p, t) in zip(main.election_states[1:], profs):
                if cfg["rule"] == "TopTwo" and s.round_number == 2 and s.tiebreaks:
                    p = None   # returned by a replay that re-draws the runoff tiebreak: not the profile of this round
                events.append(state_json(s, p, t if cfg["rule"] in ("STV", "IRV", "SequentialRCV") else -1, inv=inv))
    if main is not None:
        # the round number the *election object* stores for each of its states (Alaska renumbers the states of its STV stage)
        for k, ev in enumerate(events):
            ev["rn"] = int(main.election_states[k + 1].round_number) if k + 1 < len(main.election_states) else -1
    vorder0 = []
    if main is not None and id(main) in _VORDER:
        orders = [[[sorted(inv[c] for c in pos) for pos in r] for r in o] for o in _VORDER[id(main)]]
        vorder0 = orders[0]
        for ev, o in zip(events, orders[1:]):
            ev["vorder"] = o
    if err == "NonTermination":
        events.append({"ev": "NonTermination"})
    elif err:
        events.append({"ev": "Error", "class": err})
    hdr = {"cfg": cfg, "cands": sorted(cands), "prof0": _abstract_bag(ballots), "thr": thr0, "vorder": vorder0,
           "round0": round0 if round0 is not None else _empty_round(), "has_round0": round0 is not None}
    if keep_obj:
        return hdr, events, e
    return hdr, events


def _abstract_bag(ballots):
    d = {}
    for b in ballots:
        k = tuple(tuple(sorted(pos)) for pos in b["r"])
        d[k] = d.get(k, 0) + F(b["w"][0], b["w"][1])
    return [{"r": [list(s) for s in k], "w": rat(v)} for k, v in sorted(d.items()) if v > 0]


def _empty_round():
    return {"ev": "Round", "elected": [], "eliminated": [], "remaining": [], "scores": [], "tiebreaks": [], "bag": [],
            "bagknown": True, "thr": -1, "p": [0, 0], "vorder": [], "rn": -1}


def _evkey(ev):
    e = dict(ev)
    e.pop("p", None)
    e.pop("rn", None)        # a stored attribute of the state object, not part of what happened in the round
    return json.dumps(e, sort_keys=True)


def record(cfg, cands, ballots, mode="explore", max_paths=400, names=None, cand_order=None, seed=0, omit_defaults=False):
    """All abstract traces of one input.

    explore: every outcome of every random draw is enumerated (scripted source); traces that agree
             as abstract event sequences are merged and every Round event gets the exact conditional
             probability of that step given the prefix (field p).  Returns (traces, info).
    real:    one run with the real generators seeded by `seed`; p = [0,0] (not logged).
    """
    rng.install()
    if mode == "real":
        rng.seed_real(seed)
        hdr, events = run_once(cfg, cands, ballots, names, cand_order, omit_defaults=omit_defaults)
        t = dict(hdr)
        t["events"] = events
        return [t], {"paths": 1, "explored": False}
    paths = []
    hdr0 = [None]

    def f():
        hdr, events = run_once(cfg, cands, ballots, names, cand_order, omit_defaults=omit_defaults)
        hdr0[0] = hdr
        return events

    try:
        for events, pr, log in EX.runs(f, max_paths=max_paths):
            paths.append((events, pr, hdr0[0]))
    except TooManyPaths:
        return record(cfg, cands, ballots, "real", names=names, cand_order=cand_order, seed=seed, omit_defaults=omit_defaults)[0], \
            {"paths": len(paths), "explored": False, "too_many": True}
    except ReplayDiverged:
        # the code consulted a random primitive the scripted source does not model: its runs cannot be enumerated.  Not a verdict:
        # fall back to one seeded real run (validated by TLC without probability labels) and say so in the trace info.
        return record(cfg, cands, ballots, "real", names=names, cand_order=cand_order, seed=seed, omit_defaults=omit_defaults)[0], \
            {"paths": len(paths), "explored": False, "unscripted_randomness": True}
    # trie of abstract event sequences with exact probabilities; the part of the header that depends on a random draw (the voter
    # order PluralityVeto shuffles in its constructor) is the first edge of the trie
    def start(h):
        return ("hdr:" + json.dumps(h.get("vorder", [])),)
    prefix_p = {}
    for events, pr, h in paths:
        key = start(h)
        prefix_p[key] = prefix_p.get(key, 0) + pr
        for ev in events:
            key = key + (_evkey(ev),)
            prefix_p[key] = prefix_p.get(key, 0) + pr
    traces, seen = [], set()
    for events, pr, h in paths:
        full = start(h) + tuple(_evkey(ev) for ev in events)
        if full in seen:
            continue
        seen.add(full)
        evs, key = [], start(h)
        for ev in events:
            k2 = key + (_evkey(ev),)
            e2 = dict(ev)
            if ev["ev"] == "Round":
                e2["p"] = rat(prefix_p[k2] / prefix_p[key])
                if max(e2["p"]) > RAT_BOUND:
                    e2["p"] = [0, 0]       # label outside TLC's exact range: not compared
            evs.append(e2)
            key = k2
        t = dict(h)
        t["events"] = evs
        t["_path_p"] = rat(prefix_p[full])
        traces.append(t)
    return traces, {"paths": len(paths), "explored": True, "total_p": rat(sum(x[1] for x in paths))}


# ----------------------------------------------------------------------------- fast profile construction
class _Col(list):
    def sum(self):
        s = 0
        for x in self:
            s += x
        return s

    def __truediv__(self, d):
        return _Col([x / d for x in self])

    def apply(self, f):
        return _Col([f(x) for x in self])


class _LightFrame(dict):
    """what PreferenceProfile.create_df needs from a DataFrame, without pandas' 0.5 ms per frame"""

    def __init__(self, data=None):
        super().__init__({k: _Col(v) for k, v in (data or {}).items()})

    def __setitem__(self, k, v):
        super().__setitem__(k, v if isinstance(v, _Col) else _Col(v if isinstance(v, list) else [v] * len(self.get("Weight", []))))


class _LightPd:
    DataFrame = _LightFrame

    def __getattr__(self, n):
        import pandas
        return getattr(pandas, n)


_real_pd = [None]


def fast_df(on=True):
    """Bulk exploration builds ~20 profiles per election and 80% of the time goes into the display
    DataFrame (`df`), which no listed property mentions.  With fast_df the name `pd` inside
    votekit.pref_profile is replaced by a stand-in for the duration of the bulk run; every check also
    runs a slice of its corpus with the real pandas frame (see drivers)."""
    import votekit.pref_profile as pp
    if _real_pd[0] is None:
        _real_pd[0] = pp.pd
    pp.pd = _LightPd() if on else _real_pd[0]


# ----------------------------------------------------------------------------- queries on a finished election (C09)
QUERY_NAMES = ["get_profile", "get_step", "get_elected", "get_eliminated", "get_remaining", "get_ranking", "get_status_df", "len"]


def _snap(e, inv):
    return [state_json(s, None, -1, inv=inv) for s in e.election_states]


def _blank_query(name, r):
    return {"ev": "Query", "name": name, "r": r, "error": "", "same": True, "groups": [], "order": [], "status": [], "len": 0,
            "bag": [], "cands": [], "rescored": [], "hasrescore": False, "state": _empty_round()}


def run_queries(e, history, inv):
    """apply a query history to a finished election; one Query event per call plus a final Snapshot of election_states"""
    events = []
    for name, r in history:
        q = _blank_query(name, r)
        before = _snap(e, inv)
        try:
            with quiet():
                if name == "len":
                    q["len"] = len(e)
                elif name in ("get_elected", "get_eliminated", "get_remaining", "get_ranking"):
                    q["groups"] = groups(getattr(e, name)(r), inv)
                elif name == "get_status_df":
                    df = e.get_status_df(r)
                    q["order"] = [inv[c] for c in df.index]
                    q["status"] = sorted([inv[c], str(df.at[c, "Status"]), int(df.at[c, "Round"])] for c in df.index)
                else:
                    if name == "get_profile":
                        p = e.get_profile(r)
                    else:
                        p, st = e.get_step(r)
                        q["state"] = state_json(st, p, -1, inv=inv)
                    q["bag"] = bag_json(p, inv)
                    q["cands"] = sorted(inv[c] for c in p.candidates)
                    if e.score_function is not None:
                        q["hasrescore"] = True
                        q["rescored"] = scores_json(e.score_function(p), inv) if len(p.candidates) else []
        except Exception as ex:  # noqa
            q["error"] = type(ex).__name__
        q["same"] = before == _snap(e, inv)
        events.append(q)
    events.append({"ev": "Snapshot", "rounds": _snap(e, inv)})
    return events
