"""Subprocess body of the C08 check: run under a given PYTHONHASHSEED, read concrete presentations of abstract inputs,
run the real code on each, write projected traces.  usage: python -m harness.c08_worker IN.json OUT.json"""
import sys, json, os


def main():
    inp_path, out_path = sys.argv[1], sys.argv[2]
    from harness import elections as E
    from harness import rng
    from harness.common import quiet, rat, scores_json
    from fractions import Fraction as F
    E.fast_df(True)
    rng.install()
    jobs = json.load(open(inp_path))
    out = []
    for j in jobs:
        rng.seed_real(j["seed"])
        if j["kind"] == "election":
            hdr, events = E.run_once(j["cfg"], j["cands"], j["ballots"], j["names"], j["cand_order"])
            t = dict(hdr)
            t["events"] = events
            out.append({"key": j["key"], "variant": j["variant"], "kind": "election", "trace": t})
        elif j["kind"] == "scoring":
            from votekit import utils as U
            prof = E.build_profile(j["cands"], j["ballots"], j["names"], j["cand_order"])
            inv = {v: k for k, v in j["names"].items()}
            bag = E._abstract_bag(j["ballots"])
            for op, f in (("fpv", U.first_place_votes), ("borda", U.borda_scores), ("mentions", U.mentions)):
                t = {"op": op, "cands": sorted(j["cands"]), "bag": bag, "vec": [], "result": [], "error": "", "scores": [], "high": True}
                try:
                    with quiet():
                        t["result"] = scores_json(f(prof), inv)
                except Exception as ex:  # noqa
                    t["error"] = type(ex).__name__
                out.append({"key": j["key"] + ":" + op, "variant": j["variant"], "kind": "scoring", "trace": t})
                # the to_float variants: the float of the exact tally, hence identical for every presentation of the same bag
                if op != "mentions" or True:
                    tf = {"op": op + "_float", "floats": [], "from_exact": True, "error": ""}
                    try:
                        with quiet():
                            exact = f(prof)
                            fl = f(prof, to_float=True)
                        tf["floats"] = sorted([inv[c], repr(float(v))] for c, v in fl.items())
                        tf["from_exact"] = all(float(exact[c]) == fl[c] for c in exact)
                    except Exception as ex:  # noqa
                        tf["error"] = type(ex).__name__
                    out.append({"key": j["key"] + ":" + op + "_float", "variant": j["variant"], "kind": "scoring_float", "trace": tf})
        elif j["kind"] in ("pairwise", "pairwise_many"):
            from harness.drivers.c06 import call_work
            t = call_work({"cands": j["cands"], "ballots": j["ballots"], "names": j["names"], "cand_order": j["cand_order"]})[0]
            t.pop("_inp", None)
            out.append({"key": j["key"], "variant": j["variant"], "kind": j["kind"], "trace": t})
    json.dump({"hashseed": os.environ.get("PYTHONHASHSEED"), "results": out}, open(out_path, "w"))


if __name__ == "__main__":
    main()
