"""C08 -- outcomes are neutral, anonymous and independent of representation and hash seed."""
import random, os, json, subprocess, sys
from ..common import Result, OUT, scratch, run_tlc, Machinery, tlc_error_excerpt, VERIF, SRC
from .. import domains as D
from . import elect as EL
from ..calltrace import judge_calls
from .. import etrace

PID = "C08"
SY_INV = ["ScoresNeutral", "GroupNeutral", "ElectNeutral", "TiersNeutral", "TransferNeutral"]
DET_FAMILIES = ["stv", "oneshot", "composite", "tiered"]


def jobs_for(tier, seed):
    rng = random.Random(800 + seed)
    q = tier == "quick"
    nvar = 3 if q else 6
    jobs = []
    cands = ["A", "B", "C"]
    key = 0
    for fam in DET_FAMILIES:
        ins = EL.family_inputs(rng, fam, cands, 2, D.INT_W(2), per_bag=1 if q else 4)
        ins = [i for i in ins if i["cfg"]["xfer"] != "random"]
        ins = rng.sample(ins, min(len(ins), 120 if q else 1500))
        ins += [i for i in EL.family_sampled(rng, fam, 60 if q else 800, (4, 5), 6) if i["cfg"]["xfer"] != "random"]
        for i in ins:
            key += 1
            for v, c in enumerate(D.concretisations(rng, i["cands"], i["ballots"], nvar)):
                jobs.append({"kind": "election", "key": "e%d" % key, "variant": v, "cfg": i["cfg"], "cands": i["cands"], "ballots": c["ballots"],
                             "names": c["names"], "cand_order": c["cand_order"], "seed": rng.randrange(10**6), "abstract": i["ballots"]})
    # tallies less than one double-ulp apart (weights above 2^53, rationals 1e-17 apart): beyond TLC's range, so only part (a) -- all
    # presentations and hash seeds agree -- speaks about them
    from . import c04
    from ..elections import base_cfg
    for i in c04.wide_weight_inputs(rng, 40 if q else 600):
        nc = len(i["cands"])
        rule = rng.choice(["Plurality", "Borda", "SNTV", "IRV", "STV", "TopTwo"])
        cfg = base_cfg(rule=rule, m=1 if rule in ("IRV", "TopTwo") else rng.randint(1, nc - 1), tb=rng.choice(["none", "borda", "first_place"]),
                       vec=[[nc - k, 1] for k in range(nc)] if rule == "Borda" else [])
        key += 1
        for v, c in enumerate(D.concretisations(rng, i["cands"], i["ballots"], nvar)):
            jobs.append({"kind": "election", "key": "e%d" % key, "variant": v, "cfg": cfg, "cands": i["cands"], "ballots": c["ballots"],
                         "names": c["names"], "cand_order": c["cand_order"], "seed": rng.randrange(10**6), "abstract": i["ballots"], "wide": True})
    for n in range(150 if q else 2000):
        nc = rng.randint(3, 5)
        cs = D.ABC[:nc]
        tied = rng.random() < 0.5
        bag = D.random_bag(rng, cs, 4, tied=tied, rational=0.3, wmax=3, min_ballots=1)
        key += 1
        for v, c in enumerate(D.concretisations(rng, cs, bag, nvar)):
            jobs.append({"kind": "scoring", "key": "s%d" % key, "variant": v, "cands": cs, "ballots": c["ballots"], "names": c["names"],
                         "cand_order": c["cand_order"], "seed": 0})
            if not tied:
                jobs.append({"kind": "pairwise", "key": "p%d" % key, "variant": v, "cands": cs, "ballots": c["ballots"], "names": c["names"],
                             "cand_order": c["cand_order"], "seed": 0})
    # many candidates, short ballots (bullet votes and two-name ballots among 8 candidates): the completion of a short ballot over the 7 unranked
    # candidates (7! orders) must stay symmetric in them whatever the listing order or the names -- beyond PairwiseTrace's range (TLC would
    # enumerate the same completions), so part (a) plus the exact closed form (an unranked pair contributes nothing to a margin) decide
    many = ["A", "B", "C", "D", "E", "F", "G", "H"]
    for n in range(4 if q else 24):
        bag = []
        for _ in range(rng.randint(1, 3)):
            r = rng.sample(many, rng.choice([1, 1, 2]))
            bag.append({"r": [[c] for c in r], "w": [rng.randint(1, 5), 1]})
        key += 1
        for v, c in enumerate(D.concretisations(rng, many, bag, nvar)):
            jobs.append({"kind": "pairwise_many", "key": "m%d" % key, "variant": v, "cands": many, "ballots": c["ballots"], "names": c["names"],
                         "cand_order": c["cand_order"], "seed": 0, "abstract": bag})
    return jobs


def many_margins(cands, bag):
    """exact margins of a bag of untied short ballots: a listed candidate beats every later-listed and every unlisted one; two unlisted candidates
    are completed symmetrically, so they contribute nothing"""
    from fractions import Fraction as F
    out = {}
    for a in cands:
        for b in cands:
            if a < b:
                m = F(0)
                for bl in bag:
                    order = [t[0] for t in bl["r"]]
                    w = F(bl["w"][0], bl["w"][1])
                    ia = order.index(a) if a in order else None
                    ib = order.index(b) if b in order else None
                    if ia is not None and (ib is None or ia < ib):
                        m += w
                    elif ib is not None and (ia is None or ib < ia):
                        m -= w
                out[(a, b)] = m
    return out


def run_subprocesses(jobs, hashseeds, workdir, shards=4):
    procs = []
    for hs in hashseeds:
        for s in range(shards):
            part = jobs[s::shards]
            ip = os.path.join(workdir, "in_%d_%d.json" % (hs, s))
            op = os.path.join(workdir, "out_%d_%d.json" % (hs, s))
            json.dump(part, open(ip, "w"))
            env = dict(os.environ, PYTHONHASHSEED=str(hs), VOTEKIT_SRC=SRC, PYTHONPATH=VERIF)
            procs.append((hs, op, subprocess.Popen(["/venv/bin/python", "-m", "harness.c08_worker", ip, op], cwd=VERIF, env=env,
                                                   stdout=subprocess.DEVNULL, stderr=subprocess.PIPE)))
    results = []
    for hs, op, p in procs:
        _, err = p.communicate()
        if p.returncode != 0:
            raise Machinery("c08 worker (PYTHONHASHSEED=%s) failed: %s" % (hs, err.decode()[-800:]))
        d = json.load(open(op))
        for r in d["results"]:
            r["hashseed"] = hs
            results.append(r)
    return results


def run(tier, seed, replay=None):
    res = Result(PID, tier, seed)
    wd = scratch(PID)
    res.rule = ("role 1: MC_Symmetry -- for every bag of <=2 weak partial rankings of 3 candidates and every candidate bijection, the spec's "
                "scores, induced ranking, top-m outcomes, dominating tiers and fractional transfer commute with renaming; role 2: every "
                "abstract input (deterministic configurations of STV/IRV/SequentialRCV/Plurality/SNTV/Borda/TopTwo/Alaska/DominatingSets/"
                "CondoBorda and the scoring / pairwise utilities) is presented in several concrete ways -- renamed to awkward names whose sort "
                "and hash order differ, ballots permuted, weights split into identical ballots, candidate list shuffled -- and run in fresh "
                "subprocesses under different PYTHONHASHSEEDs; every projected trace must be accepted by the trace specs as the behaviour of "
                "the abstract input, and all presentations must give identical projected traces (whenever no random tiebreak is recorded). "
                "non-trivial = distinct abstract inputs with at least 2 presentations x 2 hash seeds compared")
    if replay:
        rp = json.load(open(replay))["replay"]
        jobs = rp["jobs"]
    else:
        cfg = ("CONSTANTS\n Cand = {\"A\",\"B\",\"C\"}\n MaxBallots = %d\nSPECIFICATION Spec\n" % (2 if tier == "quick" else 2)
               + "".join("INVARIANT %s\n" % i for i in SY_INV) + "CHECK_DEADLOCK FALSE\n")
        r = run_tlc("MC_Symmetry", cfg, os.path.join(wd, "mc_symmetry"))
        res.add_tlc("MC_Symmetry 3c/<=2b", r)
        if r["hard"]:
            raise Machinery("TLC failed on MC_Symmetry: " + tlc_error_excerpt(r["out"]))
        if r["violated"]:
            res.violation("spec:MC_Symmetry:%s" % r["violated"], "the specification is not neutral: %s" % r["violated"], {})
        jobs = jobs_for(tier, seed)
    hashseeds = [1, 2, 3, 4] if tier == "quick" else list(range(1, 17))
    results = run_subprocesses(jobs, hashseeds, wd, shards=4 if tier == "quick" else 1)
    res.evaluations = len(results)
    jobmap = {}
    for j in jobs:
        jobmap.setdefault(j["key"].split(":")[0], []).append(j)
    # (a) all presentations x hash seeds of one abstract input give the same projected trace (no recorded random tiebreak)
    groups = {}
    for r in results:
        groups.setdefault(r["key"], []).append(r)
    for key, rs in sorted(groups.items()):
        def has_tb(t):
            return any(e.get("tiebreaks") for e in t.get("events", []))
        det = [r for r in rs if not (r["kind"] == "election" and has_tb(r["trace"]))]
        if len(det) >= 2:
            res.nontrivial.add(key)
            ref = json.dumps(det[0]["trace"], sort_keys=True)
            for r in det[1:]:
                if json.dumps(r["trace"], sort_keys=True) != ref:
                    kind = r["kind"] + (":" + r["trace"]["cfg"]["rule"] if r["kind"] == "election" else ":" + r["trace"].get("op", ""))
                    res.violation("%s:VariantsDiffer" % kind, "two presentations of one abstract input (variant %s, hash seed %s vs variant %s, hash seed %s) "
                                  "give different projected outcomes" % (det[0]["variant"], det[0]["hashseed"], r["variant"], r["hashseed"]),
                                  {"jobs": jobmap[key.split(":")[0]], "a": det[0], "b": r})
                    break
    for r in results:
        if r["kind"] == "scoring_float" and not r["trace"]["from_exact"]:
            res.violation("scoring_float:NotTheFloatOfTheExactTally", "a to_float=True tally is not float(exact tally): accumulated in floating point (order dependent)",
                          {"jobs": jobmap[r["key"].split(":")[0]], "result": r})
            break
    # many-candidate short ballots: the sign and size of every margin against the closed form
    from fractions import Fraction as F
    seen_many = set()
    for r in results:
        if r["kind"] != "pairwise_many" or r["key"] in seen_many:
            continue
        j0 = jobmap[r["key"]][0]
        exp = many_margins(j0["cands"], j0["abstract"])
        got = {}
        for a, b, v in r["trace"].get("dict", []):
            got[(a, b)] = F(v[0], v[1]) if isinstance(v, (list, tuple)) else F(str(v))
        bad = r["trace"].get("error") or any(
            (got.get((a, b), -got[(b, a)] if (b, a) in got else None) is None and m != 0)
            or (((a, b) in got) and ((got[(a, b)] > 0) != (m > 0) or (got[(a, b)] < 0) != (m < 0))) or (((b, a) in got) and ((got[(b, a)] > 0) != (m < 0) or (got[(b, a)] < 0) != (m > 0)))
            for (a, b), m in exp.items())
        if bad:
            seen_many.add(r["key"])
            res.violation("pairwise_many:MarginSign", "8 candidates, short ballots: a pairwise margin has the wrong sign (two unranked candidates must tie; a listed one "
                          "beats an unlisted one)", {"jobs": jobmap[r["key"]], "result": r})
    # (b) each projected trace is the behaviour the specification prescribes for the abstract input
    def uniq(kind):
        seen, out = set(), []
        for r in results:
            if r["kind"] != kind:
                continue
            k = json.dumps(r["trace"], sort_keys=True)
            if k not in seen:
                seen.add(k)
                t = dict(r["trace"])
                t["_inp"] = {"jobs": jobmap[r["key"].split(":")[0]]}
                t["_wide"] = any(j.get("wide") for j in t["_inp"]["jobs"])
                t["_info"] = {"explored": False}
                out.append(t)
        return out
    et = [t for t in uniq("election") if not any(e.get("tiebreaks") for e in t["events"])]
    verdicts, stats, byid = etrace.validate(et, os.path.join(wd, "etraces"), exact_expected=EL.exact_expected)
    res.states += stats["distinct"]
    res.transitions += stats["states"]
    res.tlc_runs.append({"run": "trace validation (ElectionTrace)", "states_generated": stats["states"], "distinct_states": stats["distinct"],
                         "wall_s": round(stats["wall"], 1), "violated": []})
    res.traces += len(byid)
    res.skipped_arith += stats["skipped_arith"]
    for t in stats["inexact"]:
        res.violation("%s:Inexact" % t["cfg"]["rule"], "inexact tally under a renamed / reordered presentation", {"jobs": t["_inp"]["jobs"], "trace": {k: v for k, v in t.items() if not k.startswith("_")}})
    for tid, v in verdicts.items():
        t = byid[tid]
        for rec in v["rejects"] + ([v["final"]] if v["final"]["clause"] else []) + v["monitors"]:
            if EL.live_flags(t["cfg"]["rule"], rec.get("flags", [])) or rec["clause"].startswith("RoundAfter:") or rec["status"] == "overelected":
                continue       # states covered by recorded C01 findings (threshold 0, over-election, ...)
            if rec["clause"] in ("Error:ValueError",) and t["cfg"]["tb"] == "none":
                continue
            res.violation("%s:%s" % (t["cfg"]["rule"], rec["clause"]), "a concrete presentation is not the spec's behaviour of the abstract input: clause %s" % rec["clause"],
                          {"jobs": t["_inp"]["jobs"], "trace": {k: x for k, x in t.items() if not k.startswith("_")}, "verdict": rec})
    judge_calls(res, PID, "ScoringTrace", uniq("scoring"), workdir=os.path.join(wd, "straces"), what="scoring utility under a renamed / reordered presentation")
    judge_calls(res, PID, "PairwiseTrace", uniq("pairwise"), workdir=os.path.join(wd, "ptraces"), what="pairwise graph under a renamed / reordered presentation")
    res.notes["subprocesses"] = len(hashseeds) * (4 if tier == "quick" else 1)
    res.notes["hash_seeds"] = hashseeds
    res.notes["abstract_inputs"] = len(groups)
    return res
