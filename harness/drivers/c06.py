"""C06 -- pairwise comparison, dominating tiers and Condorcet consistency."""
import random, os, json, itertools, multiprocessing as mp
from fractions import Fraction as F
from ..common import Result, OUT, scratch, run_tlc, Machinery, tlc_error_excerpt, rat, quiet
from ..common import fork_pool
from .. import domains as D
from . import elect as EL
from ..calltrace import judge_calls

PID = "C06"
PW_INV = ["TiersHaveProperties", "TiersAgree", "TopIsSmith", "CondorcetIffSingleton", "CyclesIffBigTier", "MarginAntisymmetric"]


def mcgarvey(cands, pattern, rng):
    """a profile realising a given win/lose/tie pattern: for a>b add  a b rest  and  reversed(rest) a b  (margin 2k for a over b)"""
    bag = {}
    for (a, b), s in pattern.items():
        if s == 0:
            continue
        w, l = (a, b) if s > 0 else (b, a)
        rest = [c for c in cands if c not in (a, b)]
        rng.shuffle(rest)
        k = rng.choice([1, 1, 2])
        for r in ([w, l] + rest, rest[::-1] + [w, l]):
            key = tuple(r)
            bag[key] = bag.get(key, 0) + k
    return [{"r": [[c] for c in k], "w": [v, 1]} for k, v in sorted(bag.items())]


def _cw(g, inv):
    try:
        return inv[g.get_condorcet_winner()]
    except ValueError:
        return "ValueError"


def call_work(inp):
    from .. import elections as E
    E.fast_df(True)
    from votekit.graphs import PairwiseComparisonGraph
    names = inp.get("names") or {c: c for c in inp["cands"]}
    inv = {v: k for k, v in names.items()}
    t = {"op": "pairwise", "cands": sorted(inp["cands"]), "bag": E._abstract_bag(inp["ballots"]), "dict": [], "tiers": [], "hascw": False,
         "cw": "", "hascycles": False, "error": "", "h2h": [], "_inp": inp}
    try:
        with quiet():
            prof = E.build_profile(inp["cands"], inp["ballots"], names, inp.get("cand_order"))
            # the documented keyword ballot_length ("max length of ballot"): shorter ballots are completed, the others are read as they
            # are -- an unlisted candidate is below every listed one either way, so the comparison does not depend on it
            g = PairwiseComparisonGraph(prof, **({"ballot_length": inp["ballot_length"]} if inp.get("ballot_length") else {}))
            # the queries in a seeded order, each asked twice on the same object: answers must not depend on what was asked before
            qs = {"dict": lambda: sorted([inv[a], inv[b], rat(v)] for (a, b), v in g.pairwise_dict.items()),
                  "tiers": lambda: [sorted(inv[c] for c in s) for s in g.dominating_tiers()],
                  "hascw": lambda: bool(g.has_condorcet_winner()),
                  "hascycles": lambda: bool(g.has_condorcet_cycles()),
                  "cw": lambda: _cw(g, inv),
                  "h2h": lambda: sorted([inv[a], inv[b], rat(g.head2head_count(a, b))] for a in names.values() for b in names.values() if a != b)
                  if not inp.get("ballot_length") else []}
            order = list(qs) * 2
            random.Random(inp.get("qseed", 0)).shuffle(order)
            seen = {}
            for k in order:
                v = qs[k]()
                if k in seen and seen[k] != v:
                    t["error"] = "AnswerChanged:" + k          # a later answer differs from an earlier one on the same object
                seen.setdefault(k, v)
            for k, v in seen.items():
                t[k] = v
    except Exception as ex:  # noqa
        t["error"] = type(ex).__name__
    return [t]


def call_corpus(tier, seed):
    rng = random.Random(600 + seed)
    q = tier == "quick"
    inputs = []
    c3 = ["A", "B", "C"]
    rk3 = D.untied_rankings(c3)
    for bag in D.bags(rk3, 2 if q else 3, D.INT_W(2)):
        if bag:
            inputs.append({"cands": c3, "ballots": bag})
    if q:
        b3 = [b for b in D.bags(rk3, 3, D.INT_W(1))]
        inputs += [{"cands": c3, "ballots": b} for b in rng.sample(b3, 200)]
    for n, cnt in ((4, 150 if q else 3000), (5, 100 if q else 2000), (6, 30 if q else 600)):
        cands = D.ABC[:n]
        pairs = list(itertools.combinations(cands, 2))
        for _ in range(cnt):
            pat = {p: rng.choice([1, -1, 0, 1, -1]) for p in pairs}
            bag = mcgarvey(cands, pat, rng)
            if rng.random() < 0.4:      # partial / rational noise on top of the tournament skeleton
                bag = bag + D.random_bag(rng, cands, 2, rational=0.5, wmax=2, min_ballots=1)
            if bag:
                inputs.append({"cands": cands, "ballots": bag})
    for _ in range(200 if q else 4000):
        nc = rng.randint(3, 5)
        cands = D.ABC[:nc]
        bag = D.random_bag(rng, cands, 5, rational=0.3, wmax=3, min_ballots=1)
        inputs.append({"cands": cands, "ballots": bag})
    for inp in rng.sample(inputs, 100 if q else 1500):
        c = D.concretisations(rng, inp["cands"], inp["ballots"], 1)[0]
        inputs.append({"cands": inp["cands"], "ballots": c["ballots"], "names": c["names"], "cand_order": c["cand_order"]})
    for inp in inputs:
        inp["qseed"] = rng.randrange(10**6)
        if rng.random() < 0.25:
            inp["ballot_length"] = rng.randint(1, len(inp["cands"]) + 1)
    return inputs


def election_corpus(tier, seed, calls):
    rng = random.Random(660 + seed)
    q = tier == "quick"
    inputs = EL.family_inputs(rng, "tiered", ["A", "B", "C"], 2, D.INT_W(2), per_bag=None)
    inputs += EL.family_sampled(rng, "tiered", 300 if q else 5000, (4, 5), 6)
    # the tournament-directed profiles also go through DominatingSets / CondoBorda
    for inp in rng.sample(calls, 300 if q else 4000):
        if "names" in inp:
            continue
        cfgs = EL.family_configs("tiered", len(inp["cands"]))
        inputs.append({"cfg": rng.choice(cfgs), "cands": inp["cands"], "ballots": inp["ballots"], "mode": "explore", "max_paths": 60})
    return EL.add_slow_slice(rng, inputs, 80 if q else 800)


def wide_pairwise(res, tier, seed):
    """margins of 1e-13 .. 1e-16 of a vote, and of one vote among 2^53: Pairwise!Margin, Beats, HasCondorcetWinner and the declarative tiers
    (a tier is closed under beats-or-ties reachability, tiers ordered by beats) read in exact Python fractions (python_compared)"""
    from ..common import load_votekit
    load_votekit()
    from .. import elections as E
    from votekit.graphs import PairwiseComparisonGraph
    E.fast_df(True)
    rng = random.Random(6161 + seed)
    n = 0
    for _ in range(120 if tier == "quick" else 2500):
        nc = rng.randint(3, 4)
        cands = D.ABC[:nc]
        eps = rng.choice([F(1, 10**13), F(1, 10**16), F(1, 3 * 10**12), F(1)])
        base = F(2**53) if eps == 1 else F(rng.randint(1, 5))
        ballots = []
        for _ in range(rng.randint(2, 5)):
            r = rng.sample(cands, rng.randint(1, nc))
            ballots.append({"r": [[c] for c in r], "w": rat(base + rng.choice([0, 0, 1, -1, 2]) * eps)})
        bag = E._abstract_bag(ballots)

        def above(r, a, b):
            pos = {c: i for i, g in enumerate(r) for c in g}
            return a in pos and (b not in pos or pos[a] < pos[b])
        margin = {(a, b): sum((F(*x["w"]) for x in bag if above(x["r"], a, b)), F(0)) - sum((F(*x["w"]) for x in bag if above(x["r"], b, a)), F(0))
                  for a in cands for b in cands if a != b}
        want = {k: v for k, v in margin.items() if v >= 0}
        cw = [a for a in cands if all(margin[(a, b)] > 0 for b in cands if b != a)]
        n += 1
        try:
            with quiet():
                g = PairwiseComparisonGraph(E.build_profile(cands, ballots))
                got = {k: F(v) for k, v in g.pairwise_dict.items()}
                has = bool(g.has_condorcet_winner())
                tiers = [set(s) for s in g.dominating_tiers()]
        except Exception as ex:  # noqa
            res.violation("pairwise:TinyMargins(py):Error", "%s on weights %s" % (type(ex).__name__, [b["w"] for b in ballots]), {"ballots": ballots})
            continue
        bad = None
        if got != want:
            bad = "Margins"
        elif has != bool(cw):
            bad = "HasCondorcetWinner"
        elif any(not (margin[(a, b)] > 0) for i, s in enumerate(tiers) for t2 in tiers[i + 1:] for a in s for b in t2) or set().union(*tiers) != set(cands):
            bad = "Tiers"
        if bad:
            res.violation("pairwise:TinyMargins(py):%s" % bad, "PairwiseComparisonGraph on margins of %s of a vote: clause %s of the exact-fraction reading of Pairwise.tla"
                          % (eps, bad), {"cands": cands, "ballots": ballots})
    res.notes["python_compared"] = n
    res.notes["python_compared_note"] = "margins of 1e-13..1e-16 of a vote (and of one vote among 2^53) compared with the exact-fraction reading of Pairwise!Margin / Beats / tiers"


def run(tier, seed, replay=None):
    res = Result(PID, tier, seed)
    scratch(PID)
    res.rule = ("role 1: MC_Pairwise -- on every bag of <=3 untied partial rankings of 3 candidates (4 candidates, <=2 ballots in the thorough "
                "tier) the declarative Smith decomposition has the three stated properties, equals the reach-count grouping and has a "
                "singleton top tier iff a Condorcet winner exists; role 2: recorded PairwiseComparisonGraph calls (margin dictionary, tiers, "
                "Condorcet queries) on exhaustive small profiles and on McGarvey realisations of random win/lose/tie patterns on 4-6 candidates, "
                "plus recorded DominatingSets / CondoBorda elections, compared exactly by TLC. non-trivial = distinct profiles with a pairwise "
                "tie or a cycle (no Condorcet winner)")
    if replay:
        rp = json.load(open(replay))["replay"]["input"]
        calls, elects = ([rp] if "cfg" not in rp else []), ([rp] if "cfg" in rp else [])
    else:
        runs = [("3c", ["A", "B", "C"], 3, 2)] + ([] if tier == "quick" else [("4c", ["A", "B", "C", "D"], 2, 1)])
        for nm, cs, mb, mw in runs:
            cfg = ("CONSTANTS\n Cand = {%s}\n MaxBallots = %d\n MaxW = %d\nSPECIFICATION Spec\n" % (", ".join('"%s"' % c for c in cs), mb, mw)
                   + "".join("INVARIANT %s\n" % i for i in PW_INV) + "CHECK_DEADLOCK FALSE\n")
            r = run_tlc("MC_Pairwise", cfg, os.path.join(OUT, PID, "mc_pairwise_" + nm))
            res.add_tlc("MC_Pairwise %s/<=%db/w<=%d" % (nm, mb, mw), r)
            if r["hard"]:
                raise Machinery("TLC failed on MC_Pairwise: " + tlc_error_excerpt(r["out"]))
            if r["violated"]:
                res.violation("spec:MC_Pairwise:%s" % r["violated"], "the pairwise definitions violate %s" % r["violated"], {})
        EL.model_check(res, PID, "tiered", ["A", "B", "C"], 2 if tier == "quick" else 3, 2, name="mc_tiered")
        calls = call_corpus(tier, seed)
        elects = election_corpus(tier, seed, calls)
    res.evaluations = len(calls) + len(elects)
    with fork_pool(16) as pool:
        traces = [t for ts in pool.imap_unordered(call_work, calls, chunksize=16) for t in ts]
    traces.sort(key=lambda t: json.dumps({k: v for k, v in t.items() if not k.startswith("_")}, sort_keys=True))
    for t in traces:
        if not t["hascw"] or any(x[2][0] == 0 for x in t["dict"]):
            res.nontrivial.add(json.dumps(t["bag"]))
    judge_calls(res, PID, "PairwiseTrace", traces, what="PairwiseComparisonGraph disagrees with the definition")
    if not replay:
        wide_pairwise(res, tier, seed)
    etr = EL.record_corpus(elects)
    EL.judge(res, PID, etr, os.path.join(OUT, PID, "traces"), nontrivial=None)
    res.notes["calls"] = len(traces)
    res.notes["elections"] = len(elects)
    return res
