"""C14 -- every ballot generator returns a structurally valid profile of exactly N ballots; per-bloc profiles add up and
bloc (and bloc/crossover) sizes are the Huntington-Hill apportionment of N.

role 1: MC_Generators, mode "HH" (the declarative Huntington-Hill relation of Generators.tla: an apportionment exists, the
        seat-by-seat procedure lands in it, it is unique up to exact ties, house monotone, scale free).
role 2: one trace per generate_profile call of the real code, with the REAL random generators seeded per call; TLC evaluates
        GenVerdict (Generators.tla) and names the failing clause.

VERIF_C14_SKIP_KNOWN=1 (default off) leaves out the input classes of the defects listed in notes/C14_C15_report.md so that one
can see that everything else is quiet.
"""
import random, os, json, multiprocessing as mp
from fractions import Fraction as F
from ..common import Result, OUT, scratch, run_tlc, Machinery, tlc_error_excerpt, rat, quiet
from ..common import fork_pool
from .. import domains as D
from ..calltrace import judge_calls

PID = "C14"
HH_INV = ["HHExists", "HHConstructive", "HHUniqueUpToTies", "HHMonotone", "HHScaleFree", "HHRationalShares"]
HH_MC = {"quick": [dict(MaxTypes=3, MaxW=5, MaxN=7), dict(MaxTypes=4, MaxW=3, MaxN=4)],
         "thorough": [dict(MaxTypes=3, MaxW=7, MaxN=9), dict(MaxTypes=4, MaxW=4, MaxN=8)]}
NAME_KINDS = ["PL", "shortPL", "BT", "BT_MCMC", "Cumulative"]
SLATE_KINDS = ["sPL", "sBT", "sBT_MCMC"]
CROSS_KINDS = ["AC", "Cambridge"]
FREE_KINDS = ["IC", "IAC", "BSpoint", "OneDim", "Spatial", "Clustered"]
BLOC_KINDS = NAME_KINDS + SLATE_KINDS + CROSS_KINDS
NBLOCS = {"sBT": (1, 2), "sBT_MCMC": (1, 2), "AC": (2,), "Cambridge": (2,)}
NS = {"quick": [1, 2, 3, 5, 7, 10, 17, 50], "thorough": [1, 2, 3, 4, 5, 6, 7, 9, 10, 17, 50, 100, 200]}
H = F(1, 2)
COH = {1: [(1,)],
       2: [(1, 0), (0, 1), (F(3, 4), F(1, 4)), (H, H), (F(1, 4), F(3, 4)), (F(9, 10), F(1, 10))],
       3: [(1, 0, 0), (0, 1, 0), (0, 0, 1), (H, H, 0), (H, F(1, 4), F(1, 4)), (F(1, 4), F(1, 4), H), (0, H, H), (F(3, 5), F(1, 5), F(1, 5))]}
PROP = {1: [(1,)],
        2: [(H, H), (F(1, 4), F(3, 4)), (1, 0), (0, 1), (F(2, 3), F(1, 3)), (F(1, 10), F(9, 10)), (F(1, 7), F(6, 7))],
        3: [(F(1, 3), F(1, 3), F(1, 3)), (H, H, 0), (1, 0, 0), (0, 0, 1), (H, F(1, 4), F(1, 4)), (F(3, 5), F(3, 10), F(1, 10)),
            (0, F(1, 5), F(4, 5)), (F(1, 6), F(1, 3), H)]}
SUPPORTS = [0, 0, 1, 1, 1, 2, 3, 5, 20]
BLOCN = ["X", "Y", "Z"]


# ----------------------------------------------------------------------------- inputs
def _bloc_input(rng, kind, nb, n):
    blocs = BLOCN[:nb]
    while True:
        sizes = [rng.randint(1, 3) for _ in blocs]
        if sum(sizes) <= (6 if kind in ("BT", "BT_MCMC") else 7):
            break
    cands, slates = [], {}
    for b, k in zip(blocs, sizes):
        slates[b] = ["ABCDEFG"[len(cands) + i] for i in range(k)]
        cands += slates[b]
    sup = {}
    for b in blocs:
        sup[b] = {}
        for s in blocs:
            while True:
                vals = [rng.choice(SUPPORTS) for _ in slates[s]]
                if sum(vals) > 0:
                    break
            sup[b].update(dict(zip(slates[s], vals)))
    coh = {b: dict(zip(blocs, [rat(x) for x in rng.choice(COH[nb])])) for b in blocs}
    props = dict(zip(blocs, [rat(x) for x in rng.choice(PROP[nb])]))
    inp = {"kind": kind, "cands": cands, "blocs": blocs, "slates": slates, "props": props, "coh": coh, "sup": sup, "len": 0, "n": n,
           "byb": rng.random() < 0.85, "seed": rng.randrange(10**6), "scale": rng.choice([1, 1, 1, 0.001, 1000.0])}
    if kind == "shortPL":
        inp["len"] = rng.randint(1, len(cands))
    if kind == "Cumulative":
        inp["len"] = rng.choice([1, 2, 3, 5])
    if rng.random() < 0.12:
        inp["names"] = dict(zip(cands, rng.sample(D.AWKWARD, len(cands))))
    if rng.random() < 0.25:
        inp["twice"] = rng.choice([1, 2, 5, 9])
    if rng.random() < 0.12:
        # the documented alternative constructor: preference intervals drawn from Dirichlet distributions (every support positive)
        inp["via"] = "from_params"
        inp["alpha"] = rng.choice([0.5, 1, 2, 5])
        inp["sup"] = {b: {c: 1 for c in cands} for b in blocs}
    return inp


# apportionment rules a "Huntington-Hill" implementation is most easily confused with.  They are used ONLY to pick inputs on which Huntington-Hill
# differs from one of them (boundary-value design: quotas between the geometric-mean and the arithmetic-mean rounding point, tiny types next
# to a dominant one ...); the verdict on the generated profile is TLC's, through Generators!IsHH.
def _divisor(ws, n, start, sq):
    s = [start if w > 0 else 0 for w in ws]
    if sum(s) > n:
        return None
    while sum(s) < n:
        pr = [(w * w / sq(x) if sq(x) else float("inf")) if w > 0 else -1 for w, x in zip(ws, s)]
        best = max(pr)
        if pr.count(best) > 1:
            return None                     # a tie: several apportionments are legal, no use as a discriminating input
        s[pr.index(best)] += 1
    return s


def _apportionments(ws, n):
    tot = sum(ws)
    out = {"hh": _divisor(ws, n, 1, lambda x: F(x * (x + 1))), "webster": _divisor(ws, n, 0, lambda x: (F(x) + H) ** 2),
           "jefferson": _divisor(ws, n, 0, lambda x: F((x + 1) ** 2)), "adams": _divisor(ws, n, 1, lambda x: F(x * x))}
    fl = [int(n * w / tot) for w in ws]
    rem = sorted(range(len(ws)), key=lambda i: -(n * ws[i] / tot - fl[i]))
    ham = list(fl)
    for i in rem[:n - sum(fl)]:
        ham[i] += 1
    out["hamilton"] = ham
    lq = [max(x, 1) if w > 0 else 0 for x, w in zip(fl, ws)]      # lower quota first, the remainder by Huntington-Hill priority
    if sum(lq) <= n:
        while sum(lq) < n:
            pr = [w * w / F(x * (x + 1)) if w > 0 else -1 for w, x in zip(ws, lq)]
            best = max(pr)
            if pr.count(best) > 1:
                lq = None
                break
            lq[pr.index(best)] += 1
        out["lowerquota_hh"] = lq
    return out


def hh_discriminating(rng, per_method, nshares=(2, 3)):
    """(shares, N) on which Huntington-Hill differs from another apportionment rule; up to per_method inputs per rule"""
    found = {}
    for _ in range(40000):
        k = rng.choice(nshares)
        d = rng.choice([10, 12, 20, 40])
        cuts = sorted(rng.sample(range(1, d), k - 1))
        parts = [b - a for a, b in zip([0] + cuts, cuts + [d])]
        n = rng.randint(k, 50)
        ws = [F(x, d) for x in parts]
        ap = _apportionments(ws, n)
        if ap["hh"] is None:
            continue
        for m, v in ap.items():
            if m != "hh" and v is not None and v != ap["hh"] and len(found.setdefault(m, [])) < per_method \
                    and ([rat(w) for w in ws], n) not in found[m]:
                found[m].append(([rat(w) for w in ws], n))
        if all(len(found.get(m, [])) >= per_method for m in ("webster", "jefferson", "adams", "hamilton", "lowerquota_hh")):
            break
    return found


def _free_input(rng, kind, n, variant=""):
    nc = rng.randint(1, 5)
    cands = D.ABC[:nc]
    inp = {"kind": kind, "cands": cands, "blocs": [], "slates": {}, "props": {}, "coh": {}, "sup": {}, "len": 0, "n": n, "byb": False,
           "seed": rng.randrange(10**6), "variant": variant}
    if kind == "BSpoint":
        # dyadic points: the constructor demands sum(point.values()) == 1.0 in floating point
        parts = [F(1)]
        while len(parts) < nc:
            i = rng.randrange(len(parts))
            p = parts.pop(i)
            parts += [p / 2, p / 2] if rng.random() < 0.5 else [p / 4, 3 * p / 4]
        rng.shuffle(parts)
        if variant == "zero" and nc >= 2:
            parts = parts[:-2] + [parts[-2] + parts[-1], F(0)]
        inp["point"] = dict(zip(cands, [rat(p) for p in parts]))
    if kind == "Clustered":
        # generate_profile_with_dict: voters per candidate, total N
        cnt = [0] * nc
        for _ in range(n):
            cnt[rng.randrange(nc)] += 1
        inp["counts"] = dict(zip(cands, cnt))
    if rng.random() < 0.12:
        inp["names"] = dict(zip(cands, rng.sample(D.AWKWARD, len(cands))))
    return inp


def supported(inp, b):
    if inp["kind"] in NAME_KINDS:
        sl = {c: s for s, cs in inp["slates"].items() for c in cs}
        return [c for c in inp["cands"] if inp["sup"][b][c] > 0 and inp["coh"][b][sl[c]][0] > 0]
    return [c for c in inp["cands"] if inp["sup"][b][c] > 0]


def known_defect_class(inp):
    """input classes of the defects reported in notes/C14_C15_report.md (used only with VERIF_C14_SKIP_KNOWN=1 and for nothing else)"""
    k = inp["kind"]
    if k in BLOC_KINDS:
        pr = {b: F(*inp["props"][b]) for b in inp["blocs"]}
        if k in CROSS_KINDS:
            shares = [x for b in inp["blocs"] for x in (F(*inp["coh"][b][b]) * pr[b], (1 - F(*inp["coh"][b][b])) * pr[b])]
        else:
            shares = [pr[b] for b in inp["blocs"]]
        pos = sum(1 for s in shares if s > 0)
        n = inp["n"]
        if pos < n < len(shares):
            return "apportionment"          # fewer seats than types and a zero-share type: the library hands it a seat
        if n < len(shares):
            cut = sorted(shares, reverse=True)[n - 1]
            if sum(1 for s in shares if s >= cut) > n and any(s > cut for s in shares):
                return "apportionment"      # fewer seats than types and a tie at the cut: a stronger type can lose to the tied ones
        if k == "Cambridge" and F(*inp["coh"][inp["blocs"][1]][inp["blocs"][1]]) in (0, 1):
            return "cambridge-swap"         # second bloc: own cohesion is applied to the first slate's interval
        if k == "BT_MCMC" and any(pr[b] > 0 and len(supported(inp, b)) == 1 for b in inp["blocs"]):
            return "bt-mcmc-single"
        if k == "sBT_MCMC" and (any(F(*inp["coh"][b][b]) == 0 for b in inp["blocs"])
                                or any(len(supported(inp, b)) == 1 for b in inp["blocs"])):
            return "sbt-mcmc"
    if k == "BSpoint" and inp.get("variant") == "zero":
        return "point-zero"
    if k in ("Spatial", "Clustered") and inp.get("variant") == "default":
        return "spatial-defaults"
    if k == "Clustered" and inp.get("variant") == "gp":
        return "clustered-generate-profile"
    return None


def corpus(tier, seed):
    rng = random.Random(1400 + seed)
    q = tier == "quick"
    per_bloc_kind, per_free_kind = (220, 56) if q else (3500, 900)
    ns = NS[tier]
    inputs = []
    for kind in BLOC_KINDS:
        nbs = NBLOCS.get(kind, (1, 2, 3))
        for i in range(per_bloc_kind):
            nb = nbs[i % len(nbs)] if i % 4 else max(nbs)
            inputs.append(_bloc_input(rng, kind, nb, ns[(i // len(nbs)) % len(ns)]))
    # apportionment boundary inputs: shares and sizes on which Huntington-Hill differs from Webster / Jefferson / Adams / Hamilton /
    # "lower quota first"; every bloc-level generator gets some of each
    disc = hh_discriminating(rng, 6 if q else 60)
    for kind in BLOC_KINDS:
        if kind in CROSS_KINDS:
            continue
        nbs = NBLOCS.get(kind, (1, 2, 3))
        for m, lst in sorted(disc.items()):
            for ws, n in (rng.sample(lst, min(len(lst), 2 if q else 12))):
                if len(ws) not in nbs:
                    continue
                inp = _bloc_input(rng, kind, len(ws), n)
                inp["props"] = dict(zip(inp["blocs"], ws))
                inp["byb"] = True
                inp["hh_vs"] = m
                inputs.append(inp)
    # large requests at the sizes where batching / chunking code changes branch (powers of two and of ten): one or two blocs, few candidates
    for n in ([1024, 4096, 10000, 32768, 65536] if q else [1000, 1024, 2048, 4096, 8192, 10000, 16384, 32768, 65536, 100000]):
        # (not the crossover models: their four voter types put the Huntington-Hill products beyond TLC's 32-bit integers at these sizes)
        for kind in ["sPL", "sBT", rng.choice(["PL", "shortPL", "Cumulative"])] + ([] if q else ["PL", "Cumulative"]):
            inp = _bloc_input(rng, kind, rng.choice([1, 1, 2]), n)
            for k in ("via", "twice", "names"):
                inp.pop(k, None)
            if len(inp["blocs"]) == 2 and kind != "AC":
                inp["props"] = dict(zip(inp["blocs"], [rat(H), rat(H)]))
            inp["byb"] = True
            inputs.append(inp)
    for kind in FREE_KINDS:
        for i in range(per_free_kind):
            variant = ""
            if kind == "BSpoint" and i % 14 == 13:
                variant = "zero"
            if kind in ("Spatial", "Clustered") and i % 14 == 13:
                variant = "default"
            if kind == "Clustered" and i % 14 == 12:
                variant = "gp"                      # ClusteredSpatial.generate_profile(N) instead of generate_profile_with_dict
            inputs.append(_free_input(rng, kind, ns[i % len(ns)], variant))
    if os.environ.get("VERIF_C14_SKIP_KNOWN"):
        inputs = [i for i in inputs if known_defect_class(i) is None]
    return inputs


# ----------------------------------------------------------------------------- one call of the real code
class NoProfileReturned(Exception):
    pass


class ArgumentModified(Exception):
    pass


def _score_bag(profile, inv):
    d = {}
    for b in profile.ballots:
        if b.weight > 0 and b.scores:
            k = tuple(sorted((inv[c], rat(v)[0], rat(v)[1]) for c, v in b.scores.items()))
            d[k] = d.get(k, 0) + b.weight
    return [{"r": [], "s": [[c, [n, dd]] for c, n, dd in k], "w": rat(v)} for k, v in sorted(d.items())]


def _project(profile, inv, cumulative):
    from ..common import bag_json
    if cumulative:
        bag = _score_bag(profile, inv)
        dropped = sum(1 for b in profile.ballots if not (b.weight > 0 and b.scores))
    else:
        bag = [dict(b, s=[]) for b in bag_json(profile, inv)]
        dropped = sum(1 for b in profile.ballots if not (b.weight > 0 and b.ranking and any(len(s) for s in b.ranking)))
    return bag, dropped


def call_work(inp):
    from .. import elections as E
    from .. import rng
    import numpy as np
    import votekit.ballot_generator as bg
    from votekit.pref_interval import PreferenceInterval
    from votekit import PreferenceProfile
    E.fast_df(True)
    rng.seed_real(inp["seed"])
    if not getattr(np.random, "_verif_seeded", False):
        # BallotSimplex draws its Dirichlet point from a *fresh* np.random.default_rng(): seed it from the seeded legacy stream
        orig = np.random.default_rng
        np.random.default_rng = lambda *a, **k: orig(*a, **k) if (a or k) else orig(int(np.random.randint(2**31)))
        np.random._verif_seeded = True
    kind, cands, blocs = inp["kind"], inp["cands"], inp["blocs"]
    nm = inp.get("names") or {c: c for c in cands}
    inv = {v: k for k, v in nm.items()}
    t = {"op": kind, "cands": sorted(cands), "blocs": blocs, "slates": [[b, sorted(inp["slates"][b])] for b in blocs],
         "props": [[b, inp["props"][b]] for b in blocs], "coh": [[b, [[s, inp["coh"][b][s]] for s in blocs]] for b in blocs],
         "sup": [[b, [[c, inp["sup"][b][c]] for c in sorted(cands)]] for b in blocs], "len": inp["len"], "n": inp["n"], "byb": inp["byb"],
         "bag": [], "bags": [], "dropped": 0, "error": "", "_inp": inp}
    try:
        with quiet():
            N = inp["n"]
            if kind in BLOC_KINDS:
                sc = inp.get("scale", 1)
                kw = dict(slate_to_candidates={b: [nm[c] for c in inp["slates"][b]] for b in blocs},
                          pref_intervals_by_bloc={b: {s: PreferenceInterval({nm[c]: inp["sup"][b][c] * sc for c in inp["slates"][s]}) for s in blocs}
                                                  for b in blocs},
                          bloc_voter_prop={b: float(F(*inp["props"][b])) for b in blocs},
                          cohesion_parameters={b: {s: float(F(*inp["coh"][b][s])) for s in blocs} for b in blocs})
                def snap():
                    return json.dumps({"s2c": kw["slate_to_candidates"], "prop": kw["bloc_voter_prop"], "coh": kw["cohesion_parameters"],
                                       "iv": {b: {s: [sorted(iv.interval.items()), sorted(iv.zero_cands), sorted(iv.non_zero_cands)]
                                                  for s, iv in row.items()} for b, row in kw["pref_intervals_by_bloc"].items()}}, sort_keys=True, default=str)
                before = snap()
                cls = {"PL": bg.name_PlackettLuce, "shortPL": bg.short_name_PlackettLuce, "BT": bg.name_BradleyTerry,
                       "BT_MCMC": bg.name_BradleyTerry, "Cumulative": bg.name_Cumulative, "sPL": bg.slate_PlackettLuce,
                       "sBT": bg.slate_BradleyTerry, "sBT_MCMC": bg.slate_BradleyTerry, "AC": bg.AlternatingCrossover,
                       "Cambridge": bg.CambridgeSampler}[kind]
                if kind == "shortPL":
                    kw["ballot_length"] = inp["len"]
                if kind == "Cumulative":
                    kw["num_votes"] = inp["len"]
                if inp.get("via") == "from_params":
                    del kw["pref_intervals_by_bloc"]
                    g = cls.from_params(alphas={b: {s: inp["alpha"] for s in blocs} for b in blocs}, **kw)
                else:
                    g = cls(**kw)
                if inp.get("twice"):
                    # the generator object is used twice: the first profile (another size) is discarded, the second one is judged
                    try:
                        g.generate_profile(inp["twice"], by_bloc=not inp["byb"])
                    except Exception:  # noqa
                        pass
                if kind == "BT_MCMC":
                    out = g.generate_profile_MCMC(N, by_bloc=inp["byb"])
                elif kind == "sBT_MCMC":
                    out = g.generate_profile(N, by_bloc=inp["byb"], deterministic=False)
                else:
                    out = g.generate_profile(N, by_bloc=inp["byb"])
                byb, pp = out if inp["byb"] else ({}, out)
                if inp.get("via") != "from_params" and snap() != before:
                    raise ArgumentModified("a parameter dictionary or PreferenceInterval passed to the generator was modified")
            else:
                cl = [nm[c] for c in cands]
                uni = {"low": 0.0, "high": 1.0, "size": 2}
                if kind == "IC":
                    pp = bg.ImpartialCulture(candidates=cl).generate_profile(N)
                elif kind == "IAC":
                    pp = bg.ImpartialAnonymousCulture(candidates=cl).generate_profile(N)
                elif kind == "BSpoint":
                    pp = bg.BallotSimplex.from_point(point={nm[c]: float(F(*v)) for c, v in inp["point"].items()}, candidates=cl).generate_profile(N)
                elif kind == "OneDim":
                    pp = bg.OneDimSpatial(candidates=cl).generate_profile(N)
                elif kind == "Spatial":
                    g = bg.Spatial(candidates=cl) if inp.get("variant") == "default" else \
                        bg.Spatial(candidates=cl, voter_dist=np.random.uniform, voter_dist_kwargs=dict(uni), candidate_dist=np.random.uniform,
                                   candidate_dist_kwargs=dict(uni))
                    pp = g.generate_profile(N)[0]
                else:
                    g = bg.ClusteredSpatial(candidates=cl) if inp.get("variant") == "default" else \
                        bg.ClusteredSpatial(candidates=cl, voter_dist=np.random.normal, voter_dist_kwargs={"loc": 0, "scale": 0.3, "size": 2},
                                            candidate_dist=np.random.uniform, candidate_dist_kwargs=dict(uni))
                    if inp.get("variant") == "gp":
                        pp = g.generate_profile(N)
                        pp = pp[0] if isinstance(pp, tuple) else pp
                    else:
                        pp = g.generate_profile_with_dict({nm[c]: k for c, k in inp["counts"].items()})[0]
                byb = {}
        if not isinstance(pp, PreferenceProfile):
            raise NoProfileReturned("generate_profile returned %s" % type(pp).__name__)
        cum = kind == "Cumulative"
        t["bag"], t["dropped"] = _project(pp, inv, cum)
        if inp["byb"]:
            for b in blocs:
                bag, dr = _project(byb[b], inv, cum)
                t["bags"].append([b, bag])
                t["dropped"] += dr
    except Exception as ex:  # noqa
        t["error"] = type(ex).__name__
        t["_errmsg"] = str(ex)[:160]
    return t


# ----------------------------------------------------------------------------- judging
def cambridge_swapped(t):
    """second bloc of a CambridgeSampler with own cohesion 0 or 1 (where the misapplied cohesion becomes visible in the structure)"""
    b = t["blocs"][1]
    return dict((x, F(*v)) for x, v in dict((k, row) for k, row in t["coh"])[b])[b] in (0, 1)


def zero_lib(t):
    """fewer ballots than voter types: the branch of the apportionment package that is reported separately"""
    return t["n"] < len(t["blocs"]) * (2 if t["op"] in CROSS_KINDS else 1)


def _sig(t, rec):
    cl = rec["clause"]
    if cl == "Apportionment":
        # the verdict is TLC's; the signature only says which kind of disagreement it is
        zero = False
        pr = dict((b, F(*p)) for b, p in t["props"])
        coh = {b: dict((s, F(*v)) for s, v in row) for b, row in t["coh"]}
        sl = {c: b for b, cs in t["slates"] for c in cs}
        for b, bag in t["bags"]:
            tot = sum(F(*x["w"]) for x in bag)
            if t["op"] in CROSS_KINDS:
                own = sum(F(*x["w"]) for x in bag if x["r"] and all(sl[c] == b for c in x["r"][0]))
                if (coh[b][b] * pr[b] == 0 and own > 0) or ((1 - coh[b][b]) * pr[b] == 0 and tot - own > 0):
                    zero = True
            elif pr[b] == 0 and tot > 0:
                zero = True
        if t["op"] == "Cambridge" and not zero_lib(t) and cambridge_swapped(t):
            return "Cambridge:CohesionAppliedToWrongSlate"
        if not zero_lib(t):
            return "%s:Apportionment" % t["op"]     # the recorded findings concern the package's "fewer seats than parties" branch only
        return "gen:Apportionment:" + ("ZeroShareTypeGetsBallot" if zero else "NotHuntingtonHill")
    if t["op"] == "Cambridge" and cl == "EmptyBallot":
        pr = dict((b, F(*p)) for b, p in t["props"])
        own = {b: F(*dict((s, v) for s, v in row)[b]) for b, row in t["coh"]}
        if zero_lib(t) and any(pr[b] * own[b] == 0 or pr[b] * (1 - own[b]) == 0 for b in t["blocs"]):
            return "gen:Apportionment:ZeroShareTypeGetsBallot"     # a voter of a type with share zero: nothing to rank
        if cambridge_swapped(t):
            return "Cambridge:CohesionAppliedToWrongSlate"
    variant = (t.get("_inp") or {}).get("variant", "")
    if (t["op"], cl) == ("BSpoint", "Error:ZeroDivisionError") and variant != "zero":
        return "BSpoint:Error:ZeroDivisionError(no zero entry in the point)"     # the recorded finding is the zero-entry point only
    if (t["op"], cl) == ("Clustered", "Error:NoProfileReturned") and variant != "gp":
        return "Clustered:Error:NoProfileReturned(generate_profile_with_dict)"   # the recorded finding is the inherited generate_profile stub
    return "%s:%s" % (t["op"], cl)


def nontrivial_key(t):
    """a call is non-trivial when apportionment or zero-support handling has something to decide"""
    if t["op"] in FREE_KINDS:
        return json.dumps([t["op"], t["cands"], t["n"]]) if len(t["cands"]) >= 2 else None
    zero = any(v == 0 for _, row in t["sup"] for _, v in row)
    ends = any(v[0] == 0 or v == [1, 1] for _, row in t["coh"] for _, v in row) or any(v[0] == 0 for _, v in t["props"])
    if len(t["blocs"]) >= 2 or zero or ends:
        return json.dumps([t["op"], t["slates"], t["props"], t["coh"], t["sup"], t["len"], t["n"], t["byb"]])
    return None


def run(tier, seed, replay=None):
    res = Result(PID, tier, seed)
    scratch(PID)
    res.rule = ("role 1: MC_Generators mode HH (weight vectors of <=4 voter types built by AddType, house sizes by IncN: a Huntington-Hill "
                "vector exists, the seat-by-seat procedure lands in the declarative set, it is unique up to exact ties, house monotone and scale "
                "free); role 2: recorded generate_profile / generate_profile_MCMC / generate_profile_with_dict calls of all 16 generator variants "
                "with the real random generators seeded per call (1-3 blocs, slates of 1-3 candidates, cohesion and proportion vectors with 0 and 1 "
                "entries, zero-support candidates, awkward names, float supports at three scales, N from 1 up, by_bloc on and off), each judged by "
                "TLC against GenVerdict of Generators.tla (total weight, whole weights, declared/unrepeated candidates, completeness with "
                "zero-support candidates as the final tie, short length, cumulative points, per-bloc sum, Huntington-Hill sizes incl. the "
                "bloc/crossover split). non-trivial = distinct calls with >=2 blocs, a zero-support candidate or a 0/1 cohesion or proportion "
                "entry (bloc models) or >=2 candidates (bloc-free models)")
    if replay:
        inputs = [json.load(open(replay))["replay"]["input"]]
    else:
        for i, mc in enumerate(HH_MC[tier]):
            c = dict(MaxTypes=3, MaxW=4, MaxN=6, MaxCands=1, MaxSup=1, D=1)
            c.update(mc)
            cfg = ("CONSTANTS\n Mode = \"HH\"\n" + "".join(" %s = %d\n" % kv for kv in c.items()) + "SPECIFICATION Spec\n"
                   + "".join("INVARIANT %s\n" % x for x in HH_INV) + "CHECK_DEADLOCK FALSE\n")
            r = run_tlc("MC_Generators", cfg, os.path.join(OUT, PID, "mc_hh%d" % i))
            res.add_tlc("MC_Generators HH %s" % mc, r)
            if r["hard"]:
                raise Machinery("TLC failed on MC_Generators: " + tlc_error_excerpt(r["out"]))
            if r["violated"]:
                res.violation("spec:MC_Generators:%s" % r["violated"], "the Huntington-Hill definition violates %s" % r["violated"], {})
        inputs = corpus(tier, seed)
    res.evaluations = len(inputs)
    with fork_pool(16) as pool:
        traces = list(pool.imap_unordered(call_work, inputs, chunksize=8))
    traces.sort(key=lambda t: json.dumps({k: v for k, v in t.items() if not k.startswith("_")}, sort_keys=True))
    kinds, errs = {}, {}
    for t in traces:
        kinds[t["op"]] = kinds.get(t["op"], 0) + 1
        k = nontrivial_key(t)
        if k:
            res.nontrivial.add(k)
        if t["error"]:
            errs.setdefault("%s:%s" % (t["op"], t["error"]), t.get("_errmsg", ""))
    judge_calls(res, PID, "GeneratorsTrace", traces, sig_of=_sig, what="generated profile violates the structure clause", bound=2**17)
    res.notes["calls_by_generator"] = kinds
    res.notes["exception_messages"] = errs
    res.notes["cambridge_data"] = "historical ballot types read from $VOTEKIT_SRC/votekit/data/Cambridge_09to17_ballot_types.p (available offline)"
    res.notes["skip_known"] = bool(os.environ.get("VERIF_C14_SKIP_KNOWN"))
    res.assumptions.append("bloc/crossover membership of an AlternatingCrossover / CambridgeSampler ballot is read off its first candidate "
                           "(own slate = bloc voter, other slate = crossover voter)")
    return res
