"""C10 -- randomness is used only to break genuine ties, and every tiebreak is recorded."""
import random
from . import elect as EL
from .. import domains as D

PID = "C10"
MC = {"quick": [dict(family="droop", max_ballots=2, max_w=1), dict(family="oneshot", max_ballots=1, max_w=2),
                dict(family="composite", max_ballots=2, max_w=1), dict(family="tiered", max_ballots=2, max_w=2)],
      "thorough": [dict(family="stv", max_ballots=2, max_w=2), dict(family="oneshot", max_ballots=2, max_w=1),
                   dict(family="composite", max_ballots=2, max_w=2), dict(family="tiered", max_ballots=3, max_w=2)]}
FAMILIES = ["stv", "oneshot", "composite", "tiered"]


def corpus(tier, seed):
    rng = random.Random(1010 + seed)
    cands = ["A", "B", "C"]
    q = tier == "quick"
    inputs = []
    for fam in FAMILIES:
        # equal weights make ties at the seat boundary and at the elimination end common; weight 2 adds tie-free profiles
        inputs += EL.family_inputs(rng, fam, cands, 2, D.INT_W(2), per_bag=(3 if fam != "tiered" else None) if q else (16 if fam != "tiered" else None))
        if not q:
            inputs += EL.family_inputs(rng, fam, cands, 3, D.INT_W(1), per_bag=4)
        inputs += EL.family_sampled(rng, fam, 150 if q else 3000, (4, 5), 6, wmax=2, rational=0.1)
    # ties that a deterministic tiebreak resolves only partially (two or more groups that are each still tied)
    for fam in ("oneshot", "stv", "composite"):
        for _ in range(80 if q else 1500):
            nc = rng.randint(4, 5)
            cs = D.ABC[:nc]
            cfgs = [c for c in EL.family_configs(fam, nc) if c["tb"] in ("borda", "first_place", "random")]
            inputs.append({"cfg": rng.choice(cfgs), "cands": cs, "ballots": D.partial_tie_bag(rng, cs, 2), "mode": "explore", "max_paths": 200,
                           "seed": rng.randrange(10**6)})
    return EL.add_slow_slice(rng, inputs, 100 if q else 1000)


def sub_ulp_tiebreaks(res, traces, verdicts, byid):
    """an exact tie on the deciding tally whose borda tiebreak scores differ by less than one double-ulp (one point in 5 * 2^53): the tiebreak
    "orders the tied candidates by that score" -- deterministically; compared with the exact-fraction reading of Scoring!Positional (c04)"""
    from . import c04
    from ..common import fork_pool
    if res.replayed:
        return
    rng = random.Random(1077 + res.seed)
    ins = [i for i in c04.wide_weight_inputs(rng, 400 if res.tier == "quick" else 6000) if len(i["ballots"]) == 3 and i["ballots"][2]["w"] == [1, 1]]
    n = 0
    with fork_pool(16) as pool:
        for vs in pool.imap_unordered(c04.wide_weight_work, ins, chunksize=8):
            n += 1
            for sig, what, inp in vs:
                if "Tiebreak" in sig:
                    res.violation(sig, what, {"input": inp})
    res.notes["python_compared"] = res.notes.get("python_compared", 0) + n


def run(tier, seed, replay=None):
    return EL.standard_run(
        PID, tier, seed, replay, MC, corpus, wide={}, extra=sub_ulp_tiebreaks,
        nontrivial=lambda t: any(e.get("tiebreaks") for e in t["events"]),
        role3={"quick": [dict(family="oneshot", max_ballots=1, max_w=2), dict(family="composite", max_ballots=2, max_w=1)], "thorough": [dict(family="oneshot", max_ballots=2, max_w=1), dict(family="tiered", max_ballots=3, max_w=2)]},
        rule_text="role 1: TLC checks on the bounded model that a step has probability label < 1 only if the round it appends records a "
                  "tiebreak (RandomOnlyWithTiebreak), that the labels of the enabled draw sum to one (ProbSum) and that recorded "
                  "tiebreaks are strict orders of the tied set; role 2: every outcome of every random draw of the real code is "
                  "enumerated, each step gets its exact conditional probability, TLC validates the recorded tiebreak (set, order, "
                  "score-descending for borda/first_place) and flags any step the code can resolve in more than one way without a "
                  "recorded tiebreak. non-trivial = distinct inputs whose run records at least one tiebreak")
