"""C15 -- preference intervals, their combination, and the name- / slate-Bradley-Terry tables follow the closed forms.

role 1: MC_Generators modes "BT" (interval normalisation sums to one / idempotent / scale free, combination = cohesion share times
        interval, pairwise-product form = power form, table sums to its normaliser) and "SBT" (ballot-type weights, local odds rule).
role 2: one trace per constructed object of the real code (PreferenceInterval, combine_preference_intervals, pref_interval_by_bloc of
        name_PlackettLuce / name_BradleyTerry / name_Cumulative, name_BradleyTerry.pdfs_by_bloc, slate_BradleyTerry.ballot_type_pdf).

How floats reach TLC (which has none): every table is logged as integer numerators over one integer `scale`:
numerator = float * scale rounded, and -1 if that product is not within 1e-9 (relative) of a whole number.  The spec recomputes the
unnormalised integer weights and the normaliser from the *inputs* and demands scale = normaliser and numerator = weight for every entry
(and that the entries add up to the scale).  The scale is only a unit: a wrong scale, a float that is off by more than 1e-9, a missing or
an extra entry all end in a rejection by TLC; nothing computed in the harness can turn a wrong table into an accepted trace.
Tables outside TLC's 32-bit range (5-7 ranked candidates, supports spanning orders of magnitude) are compared in the harness with
the same formulas written with Python Fractions; their number is reported in the evidence (python_compared).
"""
import random, os, json, math, itertools, multiprocessing as mp
from fractions import Fraction as F
from functools import reduce
from ..common import Result, OUT, scratch, run_tlc, Machinery, tlc_error_excerpt, rat, quiet
from ..common import fork_pool
from .. import domains as D
from ..calltrace import judge_calls

PID = "C15"
BT_INV = ["IntervalSumsToOne", "IntervalIdempotent", "BTFormsAgree", "BTSumsToNormaliser", "BTScaleFree", "CombineOK"]
SBT_INV = ["SBTSumsToNormaliser", "SBTPairsPartition", "SBTCount", "SBTEnds", "SBTLocal"]
MCS = {"quick": [("BT", dict(MaxCands=4, MaxSup=3, D=4), BT_INV), ("SBT", dict(MaxCands=3, D=4), SBT_INV), ("SBT", dict(MaxCands=4, D=2), SBT_INV)],
       "thorough": [("BT", dict(MaxCands=4, MaxSup=4, D=4), BT_INV), ("BT", dict(MaxCands=3, MaxSup=6, D=5), BT_INV),
                    ("SBT", dict(MaxCands=3, D=5), SBT_INV), ("SBT", dict(MaxCands=4, D=3), SBT_INV)]}
INT31 = 2**31 - 1
H = F(1, 2)
COH = {1: [(1,)],
       2: [(1, 0), (0, 1), (F(3, 4), F(1, 4)), (H, H), (F(1, 4), F(3, 4)), (F(9, 10), F(1, 10)), (F(2, 3), F(1, 3))],
       3: [(1, 0, 0), (0, 1, 0), (0, 0, 1), (H, H, 0), (H, F(1, 4), F(1, 4)), (F(1, 4), F(1, 4), H), (0, H, H), (F(3, 5), F(1, 5), F(1, 5))]}
SMALL = [0, 1, 1, 2, 3, 5, 7, 20]
WIDE = [0, 1, 3, 10, 1000, 10**5, 10**6]
SCALES = [1, 1, 1e-6, 1000.0, 0.1, 1e-10, 1e-12]   # un-normalised supports down to 1e-12: every positive support counts
BLOCN = ["X", "Y", "Z"]


# ----------------------------------------------------------------------------- closed forms with Fractions (unit for the TLC traces; judge beyond TLC's range)
def _prim(ws):
    """the primitive integer vector proportional to the positive Fractions ws (dict)"""
    den = reduce(lambda a, b: a * b // math.gcd(a, b), [w.denominator for w in ws.values()], 1)
    ints = {c: int(w * den) for c, w in ws.items()}
    g = reduce(math.gcd, ints.values(), 0)
    return {c: v // g for c, v in ints.items()}


def py_combined(slates, coh):
    """slates: {slate: {cand: int}}, coh: {slate: Fraction} -> (primitive integer weights of supported candidates, zero candidates)"""
    vals = {}
    for b, sup in slates.items():
        tot = sum(sup.values())
        for c, s in sup.items():
            vals[c] = coh[b] * F(s, tot)
    nz = {c: v for c, v in vals.items() if v > 0}
    return _prim(nz), sorted(c for c in vals if vals[c] == 0)


def py_bt(x):
    """x {cand: positive int}: {ranking tuple: probability as Fraction}, by the pairwise products of the statement"""
    w = {}
    for r in itertools.permutations(sorted(x)):
        p = F(1)
        for i in range(len(r)):
            for j in range(i + 1, len(r)):
                p *= F(x[r[i]], x[r[i]] + x[r[j]])
        w[r] = p
    z = sum(w.values())
    return {r: p / z for r, p in w.items()}


def py_sbt(no, npp, c):
    """{type tuple over 'o','p': probability}: cohesion^(own above other) (1-cohesion)^(other above own), normalised"""
    w = {}
    for t in set(itertools.permutations(["o"] * no + ["p"] * npp)):
        a = sum(1 for i in range(len(t)) for j in range(i + 1, len(t)) if t[i] == "o" and t[j] == "p")
        b = sum(1 for i in range(len(t)) for j in range(i + 1, len(t)) if t[i] == "p" and t[j] == "o")
        w[t] = c ** a * (1 - c) ** b
    z = sum(w.values())
    return {t: p / z for t, p in w.items()}


def scaled(v, S):
    fr = F(float(v)) * S
    n = round(fr)
    return int(n) if abs(fr - n) <= F(1, 10**9) * max(n, 1) else -1


def close(v, e):
    return abs(F(float(v)) - e) <= F(1, 10**9) * max(e, F(1, 10**12))


# ----------------------------------------------------------------------------- inputs
def _slates(rng, ns, pool, maxtot, allzero_ok=False):
    while True:
        sizes = [rng.randint(1, 3) for _ in range(ns)]
        if sum(sizes) <= maxtot:
            break
    out, k = {}, 0
    for b, n in zip(BLOCN, sizes):
        while True:
            vals = [rng.choice(pool) for _ in range(n)]
            if sum(vals) > 0:
                break
        out[b] = dict(zip("ABCDEFG"[k:k + n], vals))
        k += n
    return out


def corpus(tier, seed):
    rng = random.Random(1500 + seed)
    q = tier == "quick"
    inputs = []
    # preference intervals: every support vector over {0..3} on <= 3 candidates (incl. all-zero: documented refusal), then samples up to 7
    for n in (1, 2, 3):
        for vals in itertools.product(range(4), repeat=n):
            inputs.append({"kind": "interval", "sup": dict(zip("ABC", vals)), "fscale": 1})
    for _ in range(300 if q else 6000):
        n = rng.randint(1, 7)
        pool = WIDE if rng.random() < 0.4 else SMALL
        inputs.append({"kind": "interval", "sup": dict(zip("ABCDEFG", [rng.choice(pool) for _ in range(n)])), "fscale": rng.choice(SCALES)})
    # combinations called directly, and through the name models
    for _ in range(260 if q else 5000):
        ns = rng.randint(1, 3)
        sl = _slates(rng, ns, SMALL if rng.random() < 0.8 else WIDE, 7)
        inputs.append({"kind": "combine", "slates": sl, "coh": dict(zip(BLOCN, [rat(x) for x in rng.choice(COH[ns])])), "fscale": rng.choice(SCALES)})
    for _ in range(240 if q else 8000):
        nb = rng.randint(1, 3)
        model = rng.choice(["PL", "BT", "BT", "Cumulative"])
        big = rng.random() < (0.25 if model == "BT" else 0.5)
        blocs = BLOCN[:nb]
        base = _slates(rng, nb, SMALL, 7 if big else 4)
        sup = {b: {s: {c: 0 for c in base[s]} for s in blocs} for b in blocs}
        for b in blocs:
            for s in blocs:
                while sum(sup[b][s].values()) == 0:
                    sup[b][s] = {c: rng.choice(SMALL if rng.random() < 0.85 else WIDE) for c in base[s]}
        if nb >= 2 and rng.random() < 0.3:
            # mirrored preferences: the second bloc holds the first bloc's support values in another assignment to the candidates, and every
            # interval dictionary is written favourite first -- the *sequences of values* of two blocs then coincide although the intervals differ
            for s_ in blocs:
                vals = list(sup[blocs[0]][s_].values())
                cs_ = list(sup[blocs[0]][s_])
                rng.shuffle(cs_)
                sup[blocs[1]][s_] = dict(zip(cs_, vals))
            mirrored = True
        else:
            mirrored = False
        inputs.append({"kind": "model", "by_value": mirrored, "model": model, "blocs": blocs, "sup": sup,
                       "coh": {b: dict(zip(blocs, [rat(x) for x in rng.choice(COH[nb])])) for b in blocs}, "fscale": rng.choice(SCALES)})
    # slate Bradley-Terry: 1 or 2 blocs, every cohesion k/4 and some others, slates of 1..4
    for _ in range(220 if q else 4000):
        nb = 2 if rng.random() < 0.85 else 1
        blocs = BLOCN[:nb]
        sizes = [rng.randint(1, 4) for _ in blocs]
        k, base = 0, {}
        for b, n in zip(blocs, sizes):
            base[b] = "ABCDEFGH"[k:k + n]
            k += n
        sup = {b: {s: {c: 0 for c in base[s]} for s in blocs} for b in blocs}
        for b in blocs:
            for s in blocs:
                while sum(sup[b][s].values()) == 0:
                    sup[b][s] = {c: rng.choice([0, 1, 1, 2, 5]) for c in base[s]}
        cohs = {}
        for b in blocs:
            c = rng.choice([F(0), F(1), F(1, 4), H, F(3, 4), F(9, 10), F(1, 3), F(2, 5)]) if nb == 2 else F(1)
            cohs[b] = {s: rat(c if s == b else 1 - c) for s in blocs}
        inputs.append({"kind": "sbt", "blocs": blocs, "sup": sup, "coh": cohs})
    for i in inputs:
        if rng.random() < 0.1:
            i["awkward"] = rng.randrange(10**6)
        if i["kind"] in ("model", "sbt", "combine") and rng.random() < 0.4:
            i["share"] = True
        if i["kind"] in ("model", "sbt") and rng.random() < 0.5:
            i["dict_order"] = rng.randrange(10**6)      # every parameter dictionary (outer and inner) written in its own key order
    return inputs


# ----------------------------------------------------------------------------- one constructed object -> traces
def _base(op):
    return {"op": op, "slates": [], "coh": [], "own": "", "scale": 0, "table": [], "zero": [], "nonzero": [], "sumok": True, "error": ""}


def _fits(*xs):
    return all(abs(x) <= INT31 for x in xs)


def call_work(inp):
    from .. import elections as E
    import votekit.ballot_generator as bg
    from votekit.pref_interval import PreferenceInterval, combine_preference_intervals
    E.fast_df(True)
    out, pyc = [], []          # traces for TLC; python-compared cases: (what, ok, detail)
    names = {}
    if "awkward" in inp:
        r = random.Random(inp["awkward"])
        names = dict(zip("ABCDEFGH", r.sample(D.AWKWARD, 8)))
    nm = lambda c: names.get(c, c)      # noqa
    inv = lambda c: {v: k for k, v in names.items()}.get(c, c)   # noqa
    fs = inp.get("fscale", 1)

    order_rng = random.Random(inp["dict_order"]) if "dict_order" in inp else None

    def reorder(d):
        """the same dictionary written in another key order (dictionaries are looked up by key: the order must not matter)"""
        if order_rng is None:
            return d
        ks = list(d)
        order_rng.shuffle(ks)
        return {k: (reorder(d[k]) if isinstance(d[k], dict) else d[k]) for k in ks}

    made = []           # every PreferenceInterval handed to the library, with a snapshot taken at creation: arguments are not to be modified
    shared = {}

    def mk(sup):
        key = json.dumps(sorted(sup.items()))
        if inp.get("share") and key in shared:
            return shared[key]                      # the caller passes one object wherever the same interval is meant (blocs sharing a slate's interval)
        iv = _mk(sup)
        made.append((iv, dict(iv.interval), set(iv.zero_cands), set(iv.non_zero_cands), list(iv.candidates) if hasattr(iv, "candidates") else None))
        shared[key] = iv
        return iv

    def _mk(sup):
        if inp.get("by_value"):
            sup = dict(sorted(sup.items(), key=lambda kv: -kv[1]))          # written favourite first
        return PreferenceInterval({nm(c): (s * fs if fs != 1 else s) for c, s in sup.items()})

    def interval_trace(op, obj, slates, coh, W):
        """W: expected-unit weights {cand: int} (only used for the scale); obj: a PreferenceInterval of the real code"""
        t = _base(op)
        t["slates"] = [[b, [[c, s] for c, s in sorted(sup.items())]] for b, sup in slates.items()]
        t["coh"] = [[b, rat(coh[b])] for b in slates]
        S = sum(W.values())
        t["scale"] = S
        t["table"] = sorted([inv(c), scaled(v, S)] for c, v in obj.interval.items())
        t["zero"] = sorted(inv(c) for c in obj.zero_cands)
        t["nonzero"] = sorted(inv(c) for c in obj.non_zero_cands)
        t["sumok"] = abs(math.fsum(obj.interval.values()) - 1) <= 1e-9
        return t

    try:
        with quiet():
            if inp["kind"] == "interval":
                sup = inp["sup"]
                t = _base("interval")
                t["slates"] = [["", [[c, s] for c, s in sorted(sup.items())]]]
                t["coh"] = [["", [1, 1]]]
                try:
                    obj = mk(sup)
                    t = interval_trace("interval", obj, {"": sup}, {"": F(1)}, sup)
                except Exception as ex:  # noqa
                    t["error"] = type(ex).__name__
                out.append(t)
            elif inp["kind"] == "combine":
                sl, coh = inp["slates"], {b: F(*v) for b, v in inp["coh"].items()}
                obj = combine_preference_intervals([mk(sl[b]) for b in sl], [float(coh[b]) for b in sl])
                W, _ = py_combined(sl, coh)
                raw_bound = max(c.denominator for c in coh.values()) * max(max(s.values()) for s in sl.values()) * \
                    reduce(lambda a, b: a * b, [sum(s.values()) for s in sl.values()], 1) * 8
                if _fits(raw_bound):
                    out.append(interval_trace("combined", obj, sl, coh, W))
                else:
                    pyc.append(_py_interval("combined", obj, W, py_combined(sl, coh)[1], inv))
            elif inp["kind"] == "model":
                blocs, sup = inp["blocs"], inp["sup"]
                coh = {b: {s: F(*v) for s, v in row.items()} for b, row in inp["coh"].items()}
                kw = dict(slate_to_candidates={s: [nm(c) for c in sup[blocs[0]][s]] for s in blocs},
                          pref_intervals_by_bloc={b: {s: mk(sup[b][s]) for s in blocs} for b in blocs},
                          bloc_voter_prop={b: 1 / len(blocs) for b in blocs},
                          cohesion_parameters={b: {s: float(coh[b][s]) for s in blocs} for b in blocs})
                kw = {k: reorder(v) for k, v in kw.items()}
                if inp["model"] == "PL":
                    g = bg.name_PlackettLuce(**kw)
                elif inp["model"] == "BT":
                    g = bg.name_BradleyTerry(**kw)
                else:
                    g = bg.name_Cumulative(num_votes=2, **kw)
                for b in blocs:
                    W, zero = py_combined(sup[b], coh[b])
                    raw_bound = max(c.denominator for c in coh[b].values()) * max(max(s.values()) for s in sup[b].values()) * \
                        reduce(lambda a, c: a * c, [sum(s.values()) for s in sup[b].values()], 1) * 8
                    tlc_comb = _fits(raw_bound)
                    if tlc_comb:
                        out.append(interval_trace("combined", g.pref_interval_by_bloc[b], sup[b], coh[b], W))
                    else:
                        pyc.append(_py_interval("combined", g.pref_interval_by_bloc[b], W, zero, inv))
                    if inp["model"] != "BT":
                        continue
                    pdf = g.pdfs_by_bloc[b]
                    m = len(W)
                    if tlc_comb and m <= 4 and math.factorial(m) * max(W.values()) ** (m * (m - 1) // 2) <= INT31:
                        t = _base("bt")
                        t["slates"] = [[s, [[c, v] for c, v in sorted(sup[b][s].items())]] for s in blocs]
                        t["coh"] = [[s, rat(coh[b][s])] for s in blocs]
                        wr = {r: reduce(lambda a, c: a * c, [W[r[i]] for i in range(m) for _ in range(i + 1, m)], 1)
                              for r in itertools.permutations(sorted(W))}
                        S = sum(wr.values())
                        t["scale"] = S
                        t["table"] = sorted([[inv(c) for c in r], scaled(v, S)] for r, v in pdf.items())
                        t["sumok"] = abs(math.fsum(pdf.values()) - 1) <= 1e-9
                        out.append(t)
                    else:
                        exp = py_bt(W)
                        got = {tuple(inv(c) for c in r): v for r, v in pdf.items()}
                        ok = set(got) == set(exp) and all(close(got[r], exp[r]) for r in exp) and abs(math.fsum(pdf.values()) - 1) <= 1e-9
                        pyc.append(("bt", ok, {"cands": m, "weights": W, "worst": None if ok else _worst(got, exp)}))
            else:
                blocs, sup = inp["blocs"], inp["sup"]
                coh = {b: {s: F(*v) for s, v in row.items()} for b, row in inp["coh"].items()}
                kw = dict(slate_to_candidates={s: [nm(c) for c in sup[blocs[0]][s]] for s in blocs},
                          pref_intervals_by_bloc={b: {s: mk(sup[b][s]) for s in blocs} for b in blocs},
                          bloc_voter_prop={b: 1 / len(blocs) for b in blocs},
                          cohesion_parameters={b: {s: float(coh[b][s]) for s in blocs} for b in blocs})
                kw = {k: reorder(v) for k, v in kw.items()}
                g = bg.slate_BradleyTerry(**kw)
                for b in blocs:
                    pdf = g.ballot_type_pdf[b]
                    no = sum(1 for v in sup[b][b].values() if v > 0)
                    npp = sum(1 for s in blocs if s != b for v in sup[b][s].values() if v > 0)
                    c = coh[b][b]
                    if math.comb(no + npp, no) * c.denominator ** (no * npp) <= INT31:
                        t = _base("sbt")
                        t["slates"] = [[s, [[x, v] for x, v in sorted(sup[b][s].items())]] for s in blocs]
                        t["coh"] = [[s, rat(coh[b][s])] for s in blocs]
                        t["own"] = b
                        S = _sbt_scale(no, npp, c)
                        t["scale"] = S
                        t["table"] = sorted([list(k), scaled(v, S)] for k, v in pdf.items())
                        t["sumok"] = abs(math.fsum(pdf.values()) - 1) <= 1e-9
                        out.append(t)
                    else:
                        exp = py_sbt(no, npp, c)
                        got = {tuple("o" if x == b else "p" for x in k): v for k, v in pdf.items()}
                        ok = len(got) == len(pdf) and set(got) == set(exp) and all(close(got[r], exp[r]) for r in exp) \
                            and abs(math.fsum(pdf.values()) - 1) <= 1e-9
                        pyc.append(("sbt", ok, {"own": no, "other": npp, "cohesion": rat(c), "worst": None if ok else _worst(got, exp)}))
    except Exception as ex:  # noqa
        t = _base({"interval": "interval", "combine": "combined", "model": "bt" if inp.get("model") == "BT" else "combined", "sbt": "sbt"}[inp["kind"]])
        t["error"] = type(ex).__name__
        t["_errmsg"] = str(ex)[:160]
        out.append(t)
    mutated = [1 for iv, a, z, nz, cs in made if dict(iv.interval) != a or set(iv.zero_cands) != z or set(iv.non_zero_cands) != nz]
    if mutated and out and not out[0]["error"]:
        out[0]["error"] = "ArgumentModified"         # a PreferenceInterval passed in is no longer what the caller built
    for t in out:
        t["_inp"] = inp
    return out, [(w, ok, d, inp) for w, ok, d in pyc]


def _sbt_scale(no, npp, c):
    """the integer normaliser for cohesion c = k/D: sum over types of k^(own above other) (D-k)^(other above own)"""
    k, d = c.numerator, c.denominator
    tot = 0
    for t in set(itertools.permutations(["o"] * no + ["p"] * npp)):
        a = sum(1 for i in range(len(t)) for j in range(i + 1, len(t)) if t[i] == "o" and t[j] == "p")
        b = sum(1 for i in range(len(t)) for j in range(i + 1, len(t)) if t[i] == "p" and t[j] == "o")
        tot += k ** a * (d - k) ** b
    return tot


def _worst(got, exp):
    bad = [(r, float(got.get(r, -1)), float(e)) for r, e in exp.items() if r not in got or not close(got[r], e)]
    return [str(x) for x in bad[:2]] + ["extra keys: %d" % len(set(got) - set(exp))]


def _py_interval(op, obj, W, zero, inv):
    S = sum(W.values())
    got = {inv(c): v for c, v in obj.interval.items()}
    ok = set(got) == set(W) and all(close(got[c], F(W[c], S)) for c in W) and sorted(inv(c) for c in obj.zero_cands) == zero \
        and sorted(inv(c) for c in obj.non_zero_cands) == sorted(W) and abs(math.fsum(obj.interval.values()) - 1) <= 1e-9
    return (op, ok, {"weights": W, "zero": zero, "got": {c: float(v) for c, v in got.items()}})


def nontrivial_key(t):
    zero = any(v == 0 for _, row in t["slates"] for _, v in row)
    ends = any(v[0] == 0 for _, v in t["coh"])
    if zero or ends or len(t["table"]) >= 2:
        return json.dumps([t["op"], t["slates"], t["coh"], t["own"]])
    return None


def run(tier, seed, replay=None):
    res = Result(PID, tier, seed)
    scratch(PID)
    res.rule = ("role 1: MC_Generators modes BT (support vectors of <=4 candidates built by AddCand, split in two slates, cohesion k/D by IncK: "
                "normalisation sums to one / is idempotent / scale free, combination = cohesion share x interval in rational and integer form, "
                "pairwise-product = power form, table sums to its normaliser) and SBT (slate sizes by AddOwn/AddOpp: own-above + other-above "
                "pairs partition the comparisons, number of types, cohesion 0/1 ends, adjacent-swap odds); role 2: recorded "
                "PreferenceInterval / combine_preference_intervals / pref_interval_by_bloc (name_PlackettLuce, name_BradleyTerry, "
                "name_Cumulative) / pdfs_by_bloc / ballot_type_pdf objects of the real code (1-7 candidates, integer and float supports at four "
                "scales and spanning six orders of magnitude, zero supports, cohesion 0, 1 and between, 1-3 blocs), every table compared "
                "entry by entry by TLC with the unnormalised integer weights and normaliser of Generators.tla; tables outside the 32-bit range "
                "are compared in the harness with Fraction versions of the same formulas (python_compared). non-trivial = distinct objects "
                "with a zero support, a 0 cohesion share or at least two table entries")
    if replay:
        inputs = [json.load(open(replay))["replay"]["input"]]
    else:
        for i, (mode, consts, invs) in enumerate(MCS[tier]):
            c = dict(MaxTypes=1, MaxW=1, MaxN=1, MaxCands=3, MaxSup=3, D=4)
            c.update(consts)
            cfg = ("CONSTANTS\n Mode = \"%s\"\n" % mode + "".join(" %s = %d\n" % kv for kv in c.items()) + "SPECIFICATION Spec\n"
                   + "".join("INVARIANT %s\n" % x for x in invs) + "CHECK_DEADLOCK FALSE\n")
            r = run_tlc("MC_Generators", cfg, os.path.join(OUT, PID, "mc%d" % i))
            res.add_tlc("MC_Generators %s %s" % (mode, consts), r)
            if r["hard"]:
                raise Machinery("TLC failed on MC_Generators: " + tlc_error_excerpt(r["out"]))
            if r["violated"]:
                res.violation("spec:MC_Generators:%s" % r["violated"], "the closed forms of Generators.tla violate %s" % r["violated"], {})
        inputs = corpus(tier, seed)
    res.evaluations = len(inputs)
    with fork_pool(16) as pool:
        results = list(pool.imap_unordered(call_work, inputs, chunksize=8))
    traces = [t for ts, _ in results for t in ts]
    pyc = [x for _, ps in results for x in ps]
    traces.sort(key=lambda t: json.dumps({k: v for k, v in t.items() if not k.startswith("_")}, sort_keys=True))
    ops, errs = {}, {}
    for t in traces:
        ops[t["op"]] = ops.get(t["op"], 0) + 1
        k = nontrivial_key(t)
        if k:
            res.nontrivial.add(k)
        if t["error"]:
            errs.setdefault("%s:%s" % (t["op"], t["error"]), t.get("_errmsg", ""))
    judge_calls(res, PID, "GeneratorsTrace", traces, what="table of the real code differs from the closed form")
    pyn = {}
    for what, ok, detail, inp in pyc:
        pyn[what] = pyn.get(what, 0) + 1
        res.nontrivial.add(json.dumps([what, "py", detail.get("weights") or [detail.get("own"), detail.get("other"), detail.get("cohesion")]], sort_keys=True))
        if not ok:
            res.violation("%s:Table(py)" % what, "table outside TLC's range differs from the Fraction formula: %s" % json.dumps(detail, default=str)[:300],
                          {"input": inp, "detail": detail})
    res.notes["tlc_compared"] = ops
    res.notes["python_compared"] = pyn
    res.notes["python_compared_note"] = ("objects whose exact weights exceed TLC's 32-bit integers (5-7 ranked candidates, supports spanning orders "
                                         "of magnitude, large slate-BT exponents) are judged by harness/drivers/c15.py:py_bt/py_sbt/py_combined, not by TLC")
    res.notes["exception_messages"] = errs
    return res
