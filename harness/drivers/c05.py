"""C05 -- score-ballot elections enforce their limits and elect the top m totals."""
import random, os, json, itertools, multiprocessing as mp
from fractions import Fraction as F
from ..common import Result, OUT, scratch, run_tlc, Machinery, tlc_error_excerpt, rat, quiet, scores_json, groups, _tiebreaks_json
from ..common import fork_pool
from .. import domains as D
from ..calltrace import judge_calls

PID = "C05"
MC_INV = ["LimitBoundsTotals", "BudgetBoundsSum", "WinnersOK", "WeightsMultiply"]
GRID = [F(1, 2), F(1), F(3, 2), F(2), F(3)]


def sbag_json(profile, inv):
    d = {}
    for b in profile.ballots:
        if b.weight > 0 and b.scores:
            k = tuple(sorted((inv[c], (s.numerator, s.denominator)) for c, s in b.scores.items()))
            d[k] = d.get(k, 0) + b.weight
    return [{"s": [[c, list(s)] for c, s in k], "w": rat(v)} for k, v in sorted(d.items())]


def work(inp):
    from .. import elections as E
    from .. import rng
    from ..rng import EX, TooManyPaths
    from ..common import load_votekit
    load_votekit()
    from votekit import Ballot, PreferenceProfile
    import votekit.elections as VE
    E.fast_df(True)
    E.install_recorder()
    rng.install()
    cfg, cands = inp["cfg"], inp["cands"]
    names = inp.get("names") or {c: c for c in cands}
    inv = {v: k for k, v in names.items()}
    tb = None if cfg["tb"] == "none" else cfg["tb"]
    L, k, m = F(*cfg["L"]), (F(*cfg["k"]) if cfg["hasK"] else None), cfg["m"]
    kind = inp.get("numkind", "fraction")
    conv = (lambda x: float(x)) if kind == "float" else (lambda x: x)

    def build():
        bl = []
        for b in inp["ballots"]:
            sc = {names[c]: conv(F(*s)) for c, s in b["s"]}
            kw = {"ranking": tuple(frozenset({names[c]}) for c in b["r"])} if b.get("r") else {}       # a ballot may also carry a ranking
            bl.append(Ballot(scores=sc, weight=F(*b["w"]), **kw) if sc else Ballot(weight=F(*b["w"]), **kw))
        order = inp.get("cand_order") or cands
        return PreferenceProfile(ballots=tuple(bl), candidates=tuple(names[c] for c in order))

    def ctor(p):
        r = cfg["rule"]
        if r == "GeneralRating":
            return VE.GeneralRating(p, m=m, L=conv(L), k=conv(k) if k is not None else None, tiebreak=tb)
        if r == "Rating":
            return VE.Rating(p, m=m, L=conv(L), tiebreak=tb)
        if r == "Limited":
            return VE.Limited(p, m=m, k=conv(k), tiebreak=tb)
        if r == "Cumulative":
            return VE.Cumulative(p, m=m, tiebreak=tb)
        if r == "Approval":
            return VE.Approval(p, m=m, tiebreak=tb)
        if r == "BlocPlurality":
            return VE.BlocPlurality(p, m=m, k=int(k) if k is not None else None, tiebreak=tb)

    # abstract input: zero scores are dropped; a ballot left without scores is "unscored"
    sb, unscored = {}, 0
    for b in inp["ballots"]:
        key = tuple(sorted((c, tuple(s)) for c, s in b["s"] if s[0] != 0))
        if not key:
            unscored += 1
            continue
        sb[key] = sb.get(key, 0) + F(*b["w"])
    base = {"op": "rating", "cfg": cfg, "cands": sorted(cands), "prof0": [{"s": [[c, list(s)] for c, s in kk], "w": rat(v)} for kk, v in sorted(sb.items())],
            "unscored": unscored, "_inp": inp}

    def once():
        del E._LOG[:]
        del E._CREATED[:]
        err, e = "", None
        with quiet():
            try:
                e = ctor(build())
            except Exception as ex:  # noqa
                err = type(ex).__name__
        obj = e if e is not None else (E._CREATED[0] if E._CREATED else None)
        rounds = []
        if obj is not None:
            profs = [obj._profile] + [p for (o, p, t) in E._LOG if o is obj]
            for st, p in zip(obj.election_states, profs):
                rounds.append({"elected": groups(st.elected, inv), "remaining": groups(st.remaining, inv), "scores": scores_json(st.scores, inv),
                               "tiebreaks": _tiebreaks_json(st.tiebreaks, inv), "rn": int(st.round_number),
                               "bag": sbag_json(p, inv)})
        return json.dumps({"error": err, "rounds": rounds})

    outs = set()
    complete = True
    try:
        for r, pr, log in EX.runs(once, max_paths=200):
            outs.add(r)
    except (TooManyPaths, rng.ReplayDiverged):
        rng.seed_real(inp.get("seed", 0))
        outs = {once()}
        complete = False
    res = []
    gid = json.dumps(inp, sort_keys=True, default=str)
    for o in sorted(outs):
        t = dict(base)
        t.update(json.loads(o))
        t["_group"] = gid
        t["_complete"] = complete
        res.append(t)
    return res


def configs(nc):
    out = []
    for m in range(1, nc + 1):
        for tb in ("none", "random"):
            for L in GRID:
                out.append(dict(rule="Rating", m=m, L=rat(L), hasK=False, k=[0, 1], tb=tb))
                for k in GRID:
                    if L <= k:
                        out.append(dict(rule="GeneralRating", m=m, L=rat(L), hasK=True, k=rat(k), tb=tb))
                out.append(dict(rule="GeneralRating", m=m, L=rat(L), hasK=False, k=[0, 1], tb=tb))
            for k in GRID:
                if k <= m:
                    out.append(dict(rule="Limited", m=m, L=rat(k), hasK=True, k=rat(k), tb=tb))
            out.append(dict(rule="Cumulative", m=m, L=[m, 1], hasK=True, k=[m, 1], tb=tb))
            out.append(dict(rule="Approval", m=m, L=[1, 1], hasK=False, k=[0, 1], tb=tb))
            out.append(dict(rule="BlocPlurality", m=m, L=[1, 1], hasK=False, k=[0, 1], tb=tb))
            for k in range(1, nc + 2):
                out.append(dict(rule="BlocPlurality", m=m, L=[1, 1], hasK=True, k=[k, 1], tb=tb))
    return out


SCORES = [F(0), F(1, 2), F(1), F(3, 2), F(2), F(3), F(-1, 2), F(-1)]


def rand_ballot(rng, cands, vals):
    sc = [[c, rat(rng.choice(vals))] for c in cands if rng.random() < 0.7]
    return {"s": sc, "w": rat(rng.choice([F(1), F(2), F(1, 2), F(3), F(1), F(2), F(0)]))}


def corpus(tier, seed):
    rng = random.Random(500 + seed)
    q = tier == "quick"
    inputs = []
    c3 = ["A", "B", "C"]
    cfgs3 = configs(3)
    # one or two ballots; the second ballot carries the violation in half of the cases; each limit violated alone by the
    # smallest step of the grid and grossly, and met with equality (the grid contains L and k themselves)
    nonneg = [v for v in SCORES if v >= 0]
    for _ in range(2500 if q else 40000):
        cfg = rng.choice(cfgs3)
        nb = rng.randint(1, 3)
        good = [rand_ballot(rng, c3, [v for v in nonneg if v <= F(*cfg["L"])] or [F(0)]) for _ in range(nb)]
        mode = rng.random()
        if mode < 0.45:
            bl = good
        else:
            bad = rand_ballot(rng, c3, SCORES)
            pos = rng.randrange(nb)
            bl = good[:pos] + [bad] + good[pos + 1:]
        inputs.append({"cfg": cfg, "cands": c3, "ballots": bl, "numkind": rng.choice(["fraction", "fraction", "float"]), "seed": rng.randrange(10**6)})
    # boundary cases built on purpose: exactly L, L + 1/2, exactly k, k + 1/2 on the last ballot; unscored ballot in the middle
    for cfg in (rng.sample(cfgs3, 150) if q else cfgs3):
        L = F(*cfg["L"])
        k = F(*cfg["k"]) if cfg["hasK"] else None
        ok = {"s": [["A", rat(min(L, k) if k is not None else L)]], "w": [1, 1]}
        cases = [[ok, {"s": [["B", rat(L)]], "w": [2, 1]}], [ok, {"s": [["B", rat(L + F(1, 2))]], "w": [2, 1]}],
                 [ok, {"s": [], "w": [1, 1]}, ok], [ok, {"s": [["C", [-1, 2]]], "w": [1, 1]}], [ok, {"s": [["A", [0, 1]], ["B", [0, 1]]], "w": [1, 1]}]]
        if k is not None:
            half = k / 2
            if half <= L:
                cases.append([ok, {"s": [["A", rat(half)], ["B", rat(half)]], "w": [1, 1]}])
                if half + F(1, 2) <= L:
                    cases.append([ok, {"s": [["A", rat(half)], ["B", rat(half + F(1, 2))]], "w": [1, 1]}])
        for bl in cases:
            inputs.append({"cfg": cfg, "cands": c3, "ballots": bl, "numkind": "fraction", "seed": 0})
    # larger shapes: 4-6 candidates, up to 7 ballots, thirds and tenths among the scores, weights up to 50 and rational, ballots that also
    # carry a ranking (which score rules must ignore), candidates scored by nobody
    fine = [F(0), F(1, 3), F(1, 2), F(2, 3), F(1), F(1, 10), F(3, 2), F(2), F(5, 2), F(3)]
    for _ in range(500 if q else 9000):
        nc = rng.randint(4, 6)
        cs = D.ABC[:nc]
        m = rng.randint(1, nc)
        rule = rng.choice(["Rating", "GeneralRating", "GeneralRating", "Limited", "Cumulative", "Approval", "BlocPlurality"])
        L = rng.choice(GRID)
        k = rng.choice([g for g in GRID if g >= L] or [L])
        cfg = {"Rating": dict(rule="Rating", m=m, L=rat(L), hasK=False, k=[0, 1]),
               "GeneralRating": dict(rule="GeneralRating", m=m, L=rat(L), hasK=True, k=rat(k)),
               "Limited": dict(rule="Limited", m=m, L=rat(F(min(m, 2))), hasK=True, k=rat(F(min(m, 2)))),
               "Cumulative": dict(rule="Cumulative", m=m, L=[m, 1], hasK=True, k=[m, 1]),
               "Approval": dict(rule="Approval", m=m, L=[1, 1], hasK=False, k=[0, 1]),
               "BlocPlurality": dict(rule="BlocPlurality", m=m, L=[1, 1], hasK=False, k=[0, 1])}[rule]
        cfg["tb"] = rng.choice(["none", "random"])
        Lc, kc = F(*cfg["L"]), (F(*cfg["k"]) if cfg["hasK"] else None)
        bl = []
        for _ in range(rng.randint(2, 7)):
            scored = [c for c in cs[:rng.randint(2, nc)] if rng.random() < 0.6]
            vals, tot = [], F(0)
            for c in scored:
                v = rng.choice([x for x in fine if x <= Lc] or [F(0)])
                if rule in ("Approval", "BlocPlurality"):
                    v = F(1)
                if kc is not None and tot + v > kc:
                    v = F(0)
                tot += v
                vals.append([c, rat(v)])
            b = {"s": vals, "w": rat(rng.choice([F(1), F(2), F(7), F(50), F(1, 3), F(5, 2)]))}
            if rng.random() < 0.3:
                b["r"] = rng.sample(cs, rng.randint(1, nc))
            bl.append(b)
        if rng.random() < 0.25:         # one ballot breaks one limit
            j = rng.randrange(len(bl))
            c = rng.choice(cs)
            bl[j] = dict(bl[j], s=[x for x in bl[j]["s"] if x[0] != c] + [[c, rat(rng.choice([Lc + F(1, 3), Lc + 3, F(-1, 3), (kc or Lc) + 1]))]])
        inputs.append({"cfg": cfg, "cands": cs, "ballots": bl, "numkind": rng.choice(["fraction", "fraction", "float"]), "seed": rng.randrange(10**6)})
    for inp in rng.sample(inputs, 150 if q else 2000):
        c = D.concretisations(rng, inp["cands"], [], 1)[0]
        i2 = dict(inp)
        i2["names"], i2["cand_order"] = c["names"], c["cand_order"]
        inputs.append(i2)
    return inputs


def tiny_margins(res, tier, seed):
    """a per-candidate limit or a budget exceeded (or missed) by 1e-13 .. 1e-16 of a point: the statement knows no tolerance -- over the limit by any
    margin is refused with TypeError, under it by any margin is accepted.  The margins are outside TLC's integers; the expected outcome is read
    off the construction itself (python_compared)."""
    from ..common import load_votekit
    load_votekit()
    from votekit import Ballot, PreferenceProfile
    import votekit.elections as VE
    rng = random.Random(5151 + seed)
    n = 0
    for _ in range(160 if tier == "quick" else 3000):
        eps = F(1, 10 ** rng.choice([13, 14, 16]))
        over = rng.random() < 0.6
        rule = rng.choice(["Rating", "GeneralRating", "Limited", "Cumulative"])
        m = rng.randint(1, 3)
        L = k = F(1)
        # (a Ballot stores scores with denominators up to 10^6 -- C11 -- so the hair's breadth sits in the *limit* handed to the rule, or in
        #  two scores with coprime denominators near 10^6 whose sum misses a whole budget by 1/(q*r) ~ 1e-12)
        d = eps if over else -eps
        s1 = F(rng.choice([1, 2, 3, 5]))
        if rule in ("Rating", "GeneralRating") and rng.random() < 0.6:
            L = s1 - d                                                  # the score is s1, the per-candidate limit a hair below / above it
            k = 3 * s1
            bad = {"A": s1}
        elif rule == "GeneralRating":
            half = s1 / 2
            bad = {"A": half, "B": half}                                # spends s1; the budget is a hair below / above
            k = s1 - d
            L = half                                                    # each score sits exactly on the per-candidate limit; L <= k
        else:                                                           # Cumulative (budget = m, an integer): coprime denominators near 10^6
            rule = "Cumulative"
            q_, r_ = 999983, 999979          # two primes below 10^6: both scores are stored exactly
            a = pow(r_, -1, q_)
            sign = 1 if over else -1
            a = a if over else q_ - a
            b = (m * q_ * r_ + sign - a * r_) // q_
            bad = {"A": F(a, q_), "B": F(b, r_)}
            assert sum(bad.values()) == m + F(sign, q_ * r_)
            L, k = F(m), F(m)
        ballots = [Ballot(scores={"C": F(1, 2)}, weight=2), Ballot(scores=bad, weight=1), Ballot(scores={"A": F(1, 2), "B": F(1, 4)}, weight=F(1, 2))]
        rng.shuffle(ballots)
        prof = PreferenceProfile(ballots=tuple(ballots), candidates=("A", "B", "C"))
        ctor = {"Rating": lambda: VE.Rating(prof, m=m, L=L, tiebreak="random"), "GeneralRating": lambda: VE.GeneralRating(prof, m=m, L=L, k=k, tiebreak="random"),
                "Limited": lambda: VE.Limited(prof, m=m, k=k, tiebreak="random"), "Cumulative": lambda: VE.Cumulative(prof, m=m, tiebreak="random")}[rule]
        n += 1
        try:
            with quiet():
                ctor()
            got = "ok"
        except Exception as ex:  # noqa
            got = type(ex).__name__
        want = "TypeError" if over else "ok"
        if got != want:
            res.violation("rating:TinyMargin(py):%s" % ("OverLimitAccepted" if over else "UnderLimitRefused:" + got),
                          "%s with L=%s k=%s: a ballot %s the limit by %s gives %s (expected %s)" % (rule, L, k, "over" if over else "under", eps, got, want),
                          {"rule": rule, "m": m, "L": str(L), "k": str(k), "bad": {c: str(v) for c, v in bad.items()}})
    res.notes["python_compared"] = n
    res.notes["python_compared_note"] = "limits exceeded / missed by 1e-13..1e-16 of a point: outcome class compared with the statement (no tolerance)"


def run(tier, seed, replay=None):
    res = Result(PID, tier, seed)
    scratch(PID)
    res.rule = ("role 1: MC_Rating on 2 candidates x score alphabet {1/2,1,3/2,2} x <=2 ballots x weights {1,2,1/2} x every (m, L, k, tiebreak): "
                "accepted profiles respect per-candidate and budget bounds in the totals, winners are exactly m and never below a loser, "
                "weights multiply scores; role 2: recorded constructions of GeneralRating/Rating/Limited/Cumulative/Approval/BlocPlurality "
                "(Fraction and float scores; each limit violated alone, by 1/2 and grossly, on the first / middle / last ballot; met with "
                "equality; unscored and all-zero ballots; random tiebreak branches enumerated) compared by TLC with Rating.tla: exception "
                "class, round-0 totals and order, winners, recorded tiebreak, round-1 totals and profile. non-trivial = distinct "
                "(configuration, profile) pairs that are rejected, or accepted with a tie or a candidate scored by nobody")
    if replay:
        inputs = [json.load(open(replay))["replay"]["input"]]
    else:
        cfg = ("CONSTANTS\n Cand = {\"A\",\"B\"}\n MaxBallots = 2\nSPECIFICATION Spec\n" + "".join("INVARIANT %s\n" % i for i in MC_INV) + "CHECK_DEADLOCK FALSE\n")
        r = run_tlc("MC_Rating", cfg, os.path.join(OUT, PID, "mc_rating"))
        res.add_tlc("MC_Rating 2c/<=2b", r)
        if r["hard"]:
            raise Machinery("TLC failed on MC_Rating: " + tlc_error_excerpt(r["out"]))
        if r["violated"]:
            res.violation("spec:MC_Rating:%s" % r["violated"], "the rating definitions violate %s" % r["violated"], {})
        inputs = corpus(tier, seed)
    res.evaluations = len(inputs)
    with fork_pool(16) as pool:
        traces = [t for ts in pool.imap_unordered(work, inputs, chunksize=16) for t in ts]
    traces.sort(key=lambda t: json.dumps({k: v for k, v in t.items() if not k.startswith("_")}, sort_keys=True))
    for t in traces:
        if t["error"] or any(rd["tiebreaks"] for rd in t["rounds"]) or any(x[1][0] == 0 for rd in t["rounds"][:1] for x in rd["scores"]):
            res.nontrivial.add(json.dumps([t["cfg"], t["prof0"], t["unscored"]]))
    verdicts, byid = judge_calls(res, PID, "RatingTrace", traces, what="score-ballot election disagrees with the statement")
    # spec [= code: over all outcomes of its random draws the code must produce as many different accepted results as the specification allows
    groups = {}
    for tid, v in verdicts.items():
        t = byid[tid]
        g = groups.setdefault(t["_group"], {"n": 0, "ok": True, "nout": v["final"].get("nout", -1), "complete": t["_complete"], "t": t})
        g["n"] += 1 if not t["error"] else 0
        g["ok"] &= not v["final"]["clause"]
    compared = 0
    for g in groups.values():
        if g["complete"] and g["ok"] and g["nout"] >= 0:
            compared += 1
            if g["n"] != g["nout"]:
                res.violation("rating:OutcomeSetSize", "over all outcomes of its random draws the code produces %d different accepted results where the specification allows %d"
                              % (g["n"], g["nout"]), {"input": g["t"]["_inp"]})
    res.notes["outcome_sets_compared"] = compared
    if not replay:
        tiny_margins(res, tier, seed)
    return res
