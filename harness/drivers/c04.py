"""C04 -- positional scores follow the definition exactly; Plurality / SNTV / Borda elect the top m."""
import random, os, json, multiprocessing as mp
from fractions import Fraction as F
from ..common import Result, OUT, scratch, run_tlc, Machinery, tlc_error_excerpt, rat, quiet
from ..common import fork_pool
from .. import domains as D
from . import elect as EL
from ..calltrace import judge_calls

PID = "C04"
MC = {"quick": [dict(family="oneshot", max_ballots=1, max_w=2)], "thorough": [dict(family="oneshot", max_ballots=2, max_w=1)]}
SC_INV = ["HandsOutAll", "FpvIsSpecialCase", "BordaIsSpecialCase", "ExpandPreserves", "GroupOK", "ElectOK"]

VECTORS = [[1], [3, 2, 1], [4, 3, 2, 1], [2, 1, 1, 0], [F(3, 2), F(1, 2)], [3, 3], [], [5, 3, 1, 1, 0, 0], [1.0, 0.5, 0.25], [2.5, 1, 0],
           [F(1, 3), F(1, 3), 0], [1, 2], [2, -1], [0, 0, 0], [3, 1, 2], [F(-1, 2)]]


def call_work(inp):
    from .. import elections as E
    from votekit import utils as U
    E.fast_df(True)
    out = []
    prof = E.build_profile(inp["cands"], inp["ballots"], inp.get("names"), inp.get("cand_order"))
    inv = {v: k for k, v in (inp.get("names") or {c: c for c in inp["cands"]}).items()}
    bag = E._abstract_bag(inp["ballots"])
    from ..common import scores_json

    def one(op, f, **extra):
        t = {"op": op, "cands": sorted(inp["cands"]), "bag": bag, "vec": [], "result": [], "error": "", "scores": [], "high": True}
        t.update(extra)
        try:
            with quiet():
                r = f()
            t["result"] = scores_json(r, inv)
        except Exception as ex:  # noqa
            t["error"] = type(ex).__name__
        t["_inp"] = inp
        out.append(t)

    one("fpv", lambda: U.first_place_votes(prof))
    one("borda", lambda: U.borda_scores(prof))
    one("mentions", lambda: U.mentions(prof))
    for v in inp["vectors"]:
        one("positional", lambda: U.score_profile_from_rankings(prof, v), vec=[rat(F(x)) for x in v])
    # score_dict_to_ranking on the first-place tallies, both directions
    try:
        sc = U.first_place_votes(prof)
        for high in (True, False):
            r = U.score_dict_to_ranking(sc, high)
            out.append({"op": "ranking", "cands": sorted(inp["cands"]), "bag": [], "vec": [], "error": "", "scores": scores_json(sc, inv), "high": high,
                        "result": [sorted(inv[c] for c in s) for s in r if len(s)], "_inp": inp})
    except Exception:
        pass
    return out


def helper_work(inp):
    """direct calls of elect_cands_from_set_ranking / tiebroken_ranking on an arbitrary ranking of sets: every outcome of the random
    resolution is enumerated (scripted source), each one is a trace"""
    from .. import elections as E
    from .. import rng
    from ..rng import EX, TooManyPaths
    from votekit import utils as U
    E.fast_df(True)
    rng.install()
    prof = E.build_profile(inp["cands"], inp["ballots"])
    bag = E._abstract_bag(inp["ballots"])
    rk = tuple(frozenset(s) for s in inp["ranking"])
    tb = inp["tb"]
    base = {"op": inp["op"], "cands": sorted(inp["cands"]), "bag": bag, "ranking": inp["ranking"], "m": inp.get("m", 0), "tb": tb, "error": "",
            "elected": [], "remaining": [], "tied": [], "order": [], "result": [], "dict": [], "vec": [], "scores": [], "high": True}
    gs = lambda r: [sorted(s) for s in r]       # noqa

    def call():
        try:
            with quiet():
                if inp["op"] == "elect":
                    el, rem, tbk = U.elect_cands_from_set_ranking(rk, inp["m"], prof if inp["with_profile"] else None, None if tb == "none" else tb)
                    return json.dumps({"elected": gs(el), "remaining": gs(rem), "tied": sorted(tbk[0]) if tbk else [], "order": gs(tbk[1]) if tbk else []})
                res, d = U.tiebroken_ranking(rk, prof if inp["with_profile"] else None, tb)
                return json.dumps({"result": gs(res), "dict": sorted(({"tied": sorted(k), "order": gs(v)} for k, v in d.items()), key=lambda x: x["tied"])})
        except Exception as ex:  # noqa
            return json.dumps({"error": type(ex).__name__})
    outs = set()
    try:
        for r, pr, log in EX.runs(call, max_paths=300):
            outs.add(r)
    except (TooManyPaths, rng.ReplayDiverged):
        rng.seed_real(inp.get("seed", 0))
        outs = {call()}
    res = []
    for o in sorted(outs):
        t = dict(base)
        t.update(json.loads(o))
        t["_inp"] = inp
        res.append(t)
    return res


def helper_corpus(tier, seed):
    rng = random.Random(460 + seed)
    q = tier == "quick"
    inputs = []
    for _ in range(400 if q else 8000):
        nc = rng.randint(2, 6)
        cands = D.ABC[:nc]
        order = rng.sample(cands, nc)
        ranking, i = [], 0
        while i < nc:
            k = rng.choice([1, 1, 2, 2, 3])
            ranking.append(sorted(order[i:i + k]))
            i += k
        style = rng.random()
        if style < 0.4 and nc >= 4:
            ballots = D.partial_tie_bag(rng, cands, 2)
        else:
            ballots = D.random_bag(rng, cands, 4, tied=rng.random() < 0.3, rational=0.2, wmax=2, min_ballots=0 if style > 0.9 else 1)
        tb = rng.choice(["random", "borda", "first_place"])
        if rng.random() < 0.6:
            inputs.append({"op": "elect", "cands": cands, "ballots": ballots, "ranking": ranking, "m": rng.choice(list(range(1, nc + 1)) + [0, nc + 1]),
                           "tb": rng.choice([tb, tb, "none"]), "with_profile": tb != "random" or rng.random() < 0.5, "seed": rng.randrange(10**6)})
        else:
            inputs.append({"op": "tiebroken", "cands": cands, "ballots": ballots, "ranking": ranking, "tb": tb,
                           "with_profile": tb != "random" or rng.random() < 0.5, "seed": rng.randrange(10**6)})
    return inputs


def call_corpus(tier, seed):
    rng = random.Random(400 + seed)
    q = tier == "quick"
    inputs = []
    weights = [[1, 1], [2, 1], [1, 2], [1, 3]]
    rk3 = D.weak_rankings(["A", "B", "C"])
    for bag in D.bags(rk3, 1, weights):
        inputs.append({"cands": ["A", "B", "C"], "ballots": bag, "vectors": VECTORS})
    bags2 = list(D.bags(rk3, 2, [[1, 1], [1, 3]]))
    for bag in rng.sample(bags2, 250 if q else len(bags2)):
        inputs.append({"cands": ["A", "B", "C"], "ballots": bag, "vectors": rng.sample(VECTORS, 4 if q else len(VECTORS))})
    rk4 = D.weak_rankings(["A", "B", "C", "D"])
    for _ in range(250 if q else 6000):
        nb = rng.randint(1, 3)
        bag = [{"r": rng.choice(rk4), "w": rng.choice(weights)} for _ in range(nb)]
        inputs.append({"cands": ["A", "B", "C", "D"], "ballots": bag, "vectors": rng.sample(VECTORS, 4)})
    # concretisations: awkward names, shuffled candidate tuple, split weights
    for inp in rng.sample(inputs, 150 if q else 2000):
        c = D.concretisations(rng, inp["cands"], inp["ballots"], 1)[0]
        inputs.append({"cands": inp["cands"], "ballots": c["ballots"], "names": c["names"], "cand_order": c["cand_order"], "vectors": inp["vectors"][:3]})
    return inputs


def election_corpus(tier, seed):
    rng = random.Random(440 + seed)
    q = tier == "quick"
    cands = ["A", "B", "C"]
    inputs = EL.family_inputs(rng, "oneshot", cands, 1, D.INT_W(2) + [[1, 2], [1, 3]], per_bag=12 if q else None)
    inputs += EL.family_inputs(rng, "oneshot", cands, 2, [[1, 1], [2, 1]], per_bag=2 if q else 10)
    inputs += EL.family_sampled(rng, "oneshot", 300 if q else 6000, (4, 5), 5)
    inputs += EL.partial_tie_inputs(rng, "oneshot", 80 if q else 1500)
    return EL.add_slow_slice(rng, inputs, 100 if q else 1000)


def positional_py(bag, cands, vec):
    """Scoring.tla's Positional transcribed to exact Python fractions.  Used ONLY for score vectors outside TLC's exact range
    (non-dyadic floats, denominators above 20,000); on the in-range corpus it is itself cross-checked against the traces TLC accepted."""
    vec = [F(x) for x in vec] + [F(0)] * len(cands)
    tot = {c: F(0) for c in cands}
    for b in bag:
        groups = [list(g) for g in b["r"]]
        listed = {c for g in groups for c in g}
        rest = [c for c in cands if c not in listed]
        if rest:
            groups.append(rest)
        pos = 0
        for g in groups:
            share = sum(vec[pos:pos + len(g)], F(0)) / len(g)
            for c in g:
                tot[c] += share * F(*b["w"])
            pos += len(g)
    return tot


WIDE_VECTORS = [[0.7, 0.1], [0.5000001, 0.5, 0.1], [F(1000003, 1000001), 1, F(1, 3000017)], [0.3, 0.3, 0.1], [1 / 3, 1 / 3, 0.0],
                [F(22, 7), 3.14, 3], [1e-7, 1e-8]]


def wide_work(inp):
    """Borda elections and the scoring utility with score vectors beyond TLC's range: compared with positional_py (declared in evidence)"""
    from .. import elections as E
    from votekit import utils as U
    import votekit.elections as VE
    E.fast_df(True)
    prof = E.build_profile(inp["cands"], inp["ballots"])
    bag = E._abstract_bag(inp["ballots"])
    out = []
    for v in inp["vectors"]:
        want = positional_py(bag, inp["cands"], v)
        try:
            with quiet():
                got = U.score_profile_from_rankings(prof, v)
            if dict(got) != want:
                out.append(("positional:WideVector(py)", "score_profile_from_rankings differs from the definition for vector %r" % (v,)))
        except Exception as ex:  # noqa
            out.append(("positional:WideVector(py):Error", "%s for vector %r" % (type(ex).__name__, v)))
        ranked = sorted(want.values(), reverse=True)
        for m in range(1, len(inp["cands"]) + 1):
            try:
                with quiet():
                    e = VE.Borda(prof, m=m, score_vector=v, tiebreak=None)
                sc0 = dict(e.election_states[0].scores)
                if sc0 != want:
                    out.append(("Borda:WideVector(py):Scores", "round-0 scores of Borda differ from the definition for vector %r" % (v,)))
                el = [c for s in e.get_elected() for c in s]
                if len(el) != m or min(want[c] for c in el) < max([want[c] for c in inp["cands"] if c not in el] or [min(want[c] for c in el)]):
                    out.append(("Borda:WideVector(py):Winners", "Borda winners are not the top m for vector %r" % (v,)))
            except ValueError:
                if m < len(ranked) and ranked[m - 1] != ranked[m]:
                    out.append(("Borda:WideVector(py):SpuriousTie", "Borda raised ValueError although the exact scores have no tie at seat %d, vector %r" % (m, v)))
            except Exception as ex:  # noqa
                out.append(("Borda:WideVector(py):Error", "%s for vector %r" % (type(ex).__name__, v)))
    return [(sig, what, inp) for sig, what in out]


def wide_weight_work(inp):
    """tallies that differ by less than one unit in the last place of a double (weights above 2^53 one vote apart, rationals 1e-17 apart):
    first-place and Borda tallies, the induced ranking and the Plurality / Borda winners must follow the *exact* values"""
    from .. import elections as E
    from votekit import utils as U
    import votekit.elections as VE
    E.fast_df(True)
    cands = inp["cands"]
    prof = E.build_profile(cands, inp["ballots"], cand_order=inp.get("cand_order"))
    bag = E._abstract_bag(inp["ballots"])
    n = len(cands)
    out = []

    def grouped(sc):
        return [sorted(c for c in sc if sc[c] == v) for v in sorted(set(sc.values()), reverse=True)]
    for name, vec, fn, rule in (("first_place_votes", [1], U.first_place_votes, "Plurality"), ("borda_scores", list(range(n, 0, -1)), U.borda_scores, "Borda")):
        want = positional_py(bag, cands, vec)
        try:
            with quiet():
                got = dict(fn(prof))
                rk = [sorted(s) for s in U.score_dict_to_ranking(want)]
            if got != want:
                out.append(("%s:WideWeights(py)" % name, "%s differs from the exact tallies" % name))
            if rk != grouped(want):
                out.append(("score_dict_to_ranking:WideWeights(py)", "the ranking induced by exact tallies %s is %s" % (sorted(map(str, want.values())), rk)))
        except Exception as ex:  # noqa
            out.append(("%s:WideWeights(py):Error" % name, type(ex).__name__))
        ranked = sorted(want.values(), reverse=True)
        for m in range(1, n + 1):
            try:
                with quiet():
                    e = getattr(VE, rule)(prof, m=m, tiebreak=None)
                if [sorted(s) for s in e.election_states[0].remaining] != grouped(want):
                    out.append(("%s:WideWeights(py):Round0" % rule, "round-0 ranking of %s does not follow the exact tallies" % rule))
                el = [c for s in e.get_elected() for c in s]
                if len(el) != m or min(want[c] for c in el) < max([want[c] for c in cands if c not in el] or [min(want[c] for c in el)]):
                    out.append(("%s:WideWeights(py):Winners" % rule, "%s winners are not the top %d of the exact tallies" % (rule, m)))
            except ValueError:
                if m < n and ranked[m - 1] != ranked[m]:
                    out.append(("%s:WideWeights(py):SpuriousTie" % rule, "ValueError although the exact tallies have no tie at seat %d" % m))
            except Exception as ex:  # noqa
                out.append(("%s:WideWeights(py):Error" % rule, type(ex).__name__))
    # a tie on first-place votes that a borda tiebreak resolves by less than one double-ulp: the resolution is still deterministic
    top = grouped(positional_py(bag, cands, [1]))[0]
    bor = positional_py(bag, cands, list(range(n, 0, -1)))
    if len(top) >= 2:
        best = [c for c in top if bor[c] == max(bor[x] for x in top)]
        if len(best) == 1:
            import random as _r
            for sd in range(4):
                _r.seed(sd)
                try:
                    with quiet():
                        e = VE.Plurality(prof, m=1, tiebreak="borda")
                    if [sorted(s) for s in e.get_elected()] != [best]:
                        out.append(("Plurality:WideWeights(py):Tiebreak", "first-place tie %s, exact Borda scores single out %s, elected %s"
                                    % (top, best, [sorted(s) for s in e.get_elected()])))
                        break
                except Exception as ex:  # noqa
                    out.append(("Plurality:WideWeights(py):TiebreakError", type(ex).__name__))
                    break
    return [(sig, what, inp) for sig, what in out]


def wide_weight_inputs(rng, n):
    out = []
    for _ in range(n):
        nc = rng.randint(3, 5)
        cands = D.ABC[:nc]
        style = rng.choice(["big", "big", "close", "prime"])
        ballots = []
        for c in rng.sample(cands, rng.randint(2, nc)):
            w = F(2**53 + rng.choice([0, 0, 1, 1, 2, 3])) * rng.choice([1, 1, 4]) if style == "big" else \
                F(2 * 10**17 + rng.choice([0, 0, 1, 2]), 10**17) if style == "close" else F(rng.randint(1, 50), rng.choice([10007, 999983, 1000003]))
            tail = rng.sample([x for x in cands if x != c], rng.randint(0, nc - 1))
            ballots.append({"r": [[x] for x in [c] + tail], "w": rat(w)})
        if rng.random() < 0.3:
            # exact first-place tie between two leaders whose Borda scores differ by one point in 5 * 2^53
            a, b, c = rng.sample(cands, 3)
            X = F(2**53) * rng.choice([1, 3])
            ballots = [{"r": [[a], [b]], "w": rat(X)}, {"r": [[b], [a]], "w": rat(X)}, {"r": [[c], [rng.choice([a, b])]], "w": [1, 1]}]
        order = list(cands)
        rng.shuffle(order)
        out.append({"cands": cands, "ballots": ballots, "cand_order": order})
    return out


def run(tier, seed, replay=None):
    res = Result(PID, tier, seed)
    scratch(PID)
    res.rule = ("role 1: MC_Scoring (all bags of <=2 weak partial rankings of 3 candidates x 4 weights x 7 vectors: points handed out = weight x "
                "vector total, first-place/Borda special cases, induced ranking, top-m relation) and the one-shot election model; role 2: "
                "recorded calls of score_profile_from_rankings / first_place_votes / borda_scores / mentions / score_dict_to_ranking "
                "(int, Fraction and float vectors, short and long, invalid ones) compared *exactly* with Scoring.tla by TLC, and recorded "
                "Plurality/SNTV/Borda elections validated by ElectionTrace. non-trivial = distinct calls / elections on a profile with a "
                "tied or partial ballot")
    if replay:
        rp = json.load(open(replay))["replay"]["input"]
        calls, elects = ([rp] if "vectors" in rp else []), ([rp] if "cfg" in rp else [])
    else:
        cfg = ("CONSTANTS\n Cand = {\"A\",\"B\",\"C\"}\n MaxBallots = 2\nSPECIFICATION Spec\n" + "".join("INVARIANT %s\n" % i for i in SC_INV)
               + "CHECK_DEADLOCK FALSE\n")
        r = run_tlc("MC_Scoring", cfg, os.path.join(OUT, PID, "mc_scoring"))
        res.add_tlc("MC_Scoring 3c/<=2b", r)
        if r["hard"]:
            raise Machinery("TLC failed on MC_Scoring: " + tlc_error_excerpt(r["out"]))
        if r["violated"]:
            res.violation("spec:MC_Scoring:%s" % r["violated"], "the scoring definitions violate %s" % r["violated"], {})
        for i, mc in enumerate(MC[tier]):
            EL.model_check(res, PID, mc["family"], ["A", "B", "C"], mc["max_ballots"], mc["max_w"], invariants=EL.ALL_MC_INV, props=EL.ALL_MC_PROPS,
                           name="mc%d" % i)
        calls, elects = call_corpus(tier, seed), election_corpus(tier, seed)
    res.evaluations = len(calls) + len(elects)
    with fork_pool(16) as pool:
        traces = [t for ts in pool.imap_unordered(call_work, calls, chunksize=16) for t in ts]
    if not replay or "ranking" in rp:
        with fork_pool(16) as pool:
            traces += [t for ts in pool.imap_unordered(helper_work, helper_corpus(tier, seed) if not replay else [rp], chunksize=16) for t in ts]
    traces.sort(key=lambda t: json.dumps({k: v for k, v in t.items() if not k.startswith("_")}, sort_keys=True))
    for t in traces:
        if t["op"] in ("elect", "tiebroken"):
            res.nontrivial.add(json.dumps([t["op"], t["bag"], t["ranking"], t.get("m"), t["tb"]]))
            continue
        if any(len(pos) > 1 for b in t["bag"] for pos in b["r"]) or any(sum(len(p) for p in b["r"]) < len(t["cands"]) for b in t["bag"]):
            res.nontrivial.add(json.dumps([t["op"], t["bag"], t["vec"]]))
    judge_calls(res, PID, "ScoringTrace", traces, what="scoring call disagrees with the definition")
    # cross-check of the Python transcription on the in-range corpus: wherever TLC accepted a positional call, positional_py must agree
    bad_py = 0
    for t in traces:
        if t["op"] == "positional" and not t["error"] and t.get("_accepted", True):
            want = positional_py(t["bag"], t["cands"], [F(*x) for x in t["vec"]])
            if sorted([[c, rat(v)] for c, v in want.items()]) != t["result"]:
                bad_py += 1
    if bad_py and not res.violations:
        raise Machinery("positional_py disagrees with traces TLC accepted (%d): the supplementary oracle is wrong" % bad_py)
    rngw = random.Random(4040 + seed)
    wide_inputs = [{"cands": i["cands"], "ballots": i["ballots"], "vectors": rngw.sample(WIDE_VECTORS, 3)}
                   for i in rngw.sample([c for c in calls if "names" not in c], min(len(calls), 200 if tier == "quick" else 3000))] if not replay else []
    with fork_pool(16) as pool:
        for vs in pool.imap_unordered(wide_work, wide_inputs, chunksize=8):
            for sig, what, inp in vs:
                res.violation(sig, what, {"input": inp})
    ww = wide_weight_inputs(rngw, 150 if tier == "quick" else 3000) if not replay else []
    with fork_pool(16) as pool:
        for vs in pool.imap_unordered(wide_weight_work, ww, chunksize=8):
            for sig, what, inp in vs:
                res.violation(sig, what, {"input": inp})
    res.notes["python_compared"] = len(wide_inputs) * 3 + len(ww)
    res.notes["wide_weights"] = {"profiles": len(ww), "note": "tallies less than one double-ulp apart (weights above 2^53, rationals 1e-17 apart) compared with positional_py"}
    res.notes["python_compared_note"] = ("score vectors with non-dyadic floats or denominators above 20,000 are outside TLC's exact range; they are compared with "
                                         "positional_py, a transcription of Scoring.tla's Positional that is itself cross-checked against the TLC-accepted traces of this run")
    etr = EL.record_corpus(elects)
    EL.judge(res, PID, etr, os.path.join(OUT, PID, "traces"), nontrivial=lambda t: True)
    res.notes["calls"] = len(traces)
    res.notes["elections"] = len(elects)
    return res
