"""C07 -- STV meets Droop proportionality for solid coalitions (IRV majority criterion)."""
import random
from fractions import Fraction as F
from . import elect as EL
from .. import domains as D
from ..elections import base_cfg

PID = "C07"
INV = ["MTypeOK", "MDPC", "MExactlySeats", "MNoOverElectionDroop"]
MC = {"quick": [dict(family="droop", max_ballots=2, max_w=2, invariants=INV, props=["Termination"])],
      "thorough": [dict(family="droop", max_ballots=3, max_w=3, invariants=INV, props=["Termination"]),
                   dict(family="droop", cands=["A", "B", "C", "D"], max_ballots=2, max_w=1, invariants=INV, props=["Termination"]),
                   dict(family="droop_random", cands=["A", "B", "C", "D", "E"], max_ballots=4, max_w=3, invariants=INV, simulate="num=800"),
                   dict(family="droop", max_ballots=2, max_w=2, with_half=True, invariants=INV, props=["Termination"])]}


def planted(rng, n):
    """profiles with a solid coalition of weight exactly k*threshold or one vote short of it"""
    out = []
    for _ in range(n):
        nc = rng.randint(3, 6)
        cands = D.ABC[:nc]
        m = rng.randint(1, nc - 1)
        S = rng.sample(cands, rng.randint(1, nc - 1))
        others = [c for c in cands if c not in S]
        N = rng.randint(m + 1, 24)
        thr = N // (m + 1) + 1
        k = rng.randint(1, max(1, min(len(S), m)))
        target = k * thr - rng.choice([0, 0, 1])
        if target <= 0 or target > N:
            continue
        ballots, left = [], target
        while left > 0:
            w = rng.randint(1, left)
            perm = rng.sample(S, len(S))
            tail = rng.sample(others, rng.randint(0, len(others)))
            ballots.append({"r": [[c] for c in perm + tail], "w": [w, 1]})
            left -= w
        nco = len(ballots)
        left = N - target
        while left > 0:
            w = rng.randint(1, left)
            r = rng.sample(cands, rng.randint(1, nc))
            ballots.append({"r": [[c] for c in r], "w": [w, 1]})
            left -= w
        rule = rng.choice(["STV", "STV", "STV", "IRV"])
        cfg = base_cfg(rule=rule, m=1 if rule == "IRV" else m, simul=rng.random() < 0.5 or rule == "IRV",
                       xfer="fractional" if rule == "IRV" else rng.choice(["fractional", "random"]), tb=rng.choice(["random", "borda", "none"]))
        # fractional weights (fractional transfer only; the whole-ballot rule refuses them): a quarter, a half or three quarters of a vote moves
        # between two coalition ballots and between two outside ballots, so first-place tallies and surpluses are no longer whole numbers while
        # the coalition still holds exactly k*threshold (or one vote less) of an unchanged total (own random source: the rest of the corpus
        # is what it was)
        fr = random.Random(7919 * len(out) + n)
        if cfg["xfer"] == "fractional" and fr.random() < 0.5:
            from fractions import Fraction as F
            for lo, hi in ((0, nco), (nco, len(ballots))):
                if hi - lo >= 2:
                    i, j = fr.sample(range(lo, hi), 2)
                    d = F(fr.choice([1, 2, 3]), 4)
                    wj = F(*ballots[j]["w"]) - d
                    if wj > 0:
                        wi = F(*ballots[i]["w"]) + d
                        ballots[i]["w"] = [wi.numerator, wi.denominator]
                        ballots[j]["w"] = [wj.numerator, wj.denominator]
        out.append({"cfg": cfg, "cands": cands, "ballots": ballots, "mode": "explore", "max_paths": 40, "seed": rng.randrange(10**6)})
    return out


def symmetric(rng, n):
    """coalitions whose members reach the quota *together with equal tallies* (tied winners of one simultaneous round), each with a
    surplus the coalition needs: S = {s1..sk}, every member first on the same weight w > threshold, tails inside S, outsiders share the rest"""
    out = []
    for _ in range(n):
        nc = rng.randint(3, 5)
        cands = D.ABC[:nc]
        k = rng.randint(2, min(3, nc - 1))
        S = rng.sample(cands, k)
        others = [c for c in cands if c not in S]
        heads = rng.randint(2, k) if k > 2 else 2          # how many members are ranked first by somebody
        m = rng.randint(heads, min(nc - 1, k + 1)) if heads <= min(nc - 1, k + 1) else heads
        w = rng.randint(3, 15)
        ballots = []
        for h in S[:heads]:
            rest = [c for c in S if c != h]
            rng.shuffle(rest)
            tail = rng.sample(others, rng.randint(0, len(others)))
            ballots.append({"r": [[c] for c in [h] + rest + tail], "w": [w, 1]})
        left = rng.randint(1, w)
        for o in rng.sample(others, rng.randint(1, len(others))):
            if left <= 0:
                break
            x = rng.randint(1, left)
            ballots.append({"r": [[o]] + ([[rng.choice(S)]] if rng.random() < 0.3 else []), "w": [x, 1]})
            left -= x
        cfg = base_cfg(rule="STV", m=min(m, nc), simul=rng.random() < 0.8, xfer=rng.choice(["fractional", "fractional", "random"]),
                       tb=rng.choice(["random", "borda"]))
        out.append({"cfg": cfg, "cands": cands, "ballots": ballots, "mode": "explore", "max_paths": 40, "seed": rng.randrange(10**6)})
    return out


def mixed_pile(rng, n):
    """a coalition holding exactly k quotas whose first choice also leads a few *outsider* ballots: under the random transfer the
    coalition keeps its seats only if the surplus is a sub-collection drawn without replacement from the winner's pile"""
    out = []
    tries = 0
    while len(out) < n and tries < 50 * n:
        tries += 1
        nc = rng.randint(3, 4)
        cands = D.ABC[:nc]
        m = rng.randint(2, nc - 1)
        S = rng.sample(cands, 2)
        others = [c for c in cands if c not in S]
        t = rng.randint(2, 6)
        k = 2
        x = rng.randint(1, max(1, t - 1))
        y = rng.randint(0, 2 * t)
        N = k * t + x + y
        if N // (m + 1) + 1 != t:
            continue
        o = rng.choice(others)
        ballots = [{"r": [[S[0]], [S[1]]] + ([[o]] if rng.random() < 0.4 else []), "w": [k * t, 1]},
                   {"r": [[S[0]], [o]] + ([[S[1]]] if rng.random() < 0.4 else []), "w": [x, 1]}]
        if y:
            o2 = rng.choice(others)
            ballots.append({"r": [[o2]] + ([[o]] if o != o2 and rng.random() < 0.5 else []), "w": [y, 1]})
        cfg = base_cfg(rule="STV", m=m, simul=rng.random() < 0.5, xfer="random", tb=rng.choice(["random", "borda"]))
        out.append({"cfg": cfg, "cands": cands, "ballots": ballots, "mode": "explore", "max_paths": 400, "seed": rng.randrange(10**6)})
    return out


def corpus(tier, seed):
    rng = random.Random(700 + seed)
    cands = ["A", "B", "C"]
    rk = D.untied_rankings(cands)
    cfgs = EL.family_configs("droop", 3)
    q = tier == "quick"
    inputs = EL.inputs_exhaustive(rng, cands, rk, 2, D.INT_W(3), cfgs, per_bag=6 if q else None)
    if not q:
        inputs += EL.inputs_exhaustive(rng, cands, rk, 3, D.INT_W(2), cfgs, per_bag=6)
    inputs += planted(rng, 500 if q else 8000)
    inputs += symmetric(rng, 400 if q else 6000)
    inputs += mixed_pile(rng, 250 if q else 4000)
    return EL.add_slow_slice(rng, inputs, 100 if q else 1000)


def droop_lemma(res, traces, verdicts, byid):
    """unbounded complement (thorough tier): (m+1) * (floor(N/(m+1)) + 1) > N for all naturals, proved with TLAPS -- the reason at most m
    candidates can hold a Droop quota at once.  Nothing else depends on it; a failing proof is a machinery failure, not a violation."""
    import subprocess, shutil, os, re
    from ..common import SPEC, Machinery
    if res.tier != "thorough":
        return
    d = os.path.join(SPEC, "proofs")
    shutil.rmtree(os.path.join(d, ".tlacache"), ignore_errors=True)
    pr = subprocess.run(["tlapm", "--cleanfp", "Droop.tla"], cwd=d, capture_output=True, text=True, timeout=600)
    shutil.rmtree(os.path.join(d, ".tlacache"), ignore_errors=True)
    m = re.search(r"All (\d+) obligations proved", pr.stdout + pr.stderr)
    if not m:
        raise Machinery("tlapm did not prove spec/proofs/Droop.tla:\n" + (pr.stdout + pr.stderr)[-1500:])
    res.notes["tlaps_droop_lemma"] = {"obligations": int(m.group(1)), "proved": int(m.group(1)), "cmd": "tlapm --cleanfp spec/proofs/Droop.tla"}


def run(tier, seed, replay=None):
    def nontriv(t):
        return len(t["events"]) >= 2
    return EL.standard_run(
        PID, tier, seed, replay, MC, corpus, nontriv, extra=droop_lemma, wide={"rules": ("STV", "STV", "IRV"), "coalition": True},
        rule_text="role 1: the DPC invariant (every candidate subset S, solid weight read off the initial profile) checked by TLC on every "
                  "terminal state of the Droop model: all profiles of <=K distinct rankings of 3 candidates x m x both modes x both "
                  "transfers x every random outcome; role 2: the same invariant evaluated by TLC on the final state of every validated "
                  "trace of the real STV/IRV, incl. profiles with planted coalitions of weight k*threshold and k*threshold-1 on 3-6 "
                  "candidates. non-trivial = distinct inputs whose count has >= 2 rounds")
