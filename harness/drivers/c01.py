"""C01 -- every election terminates with exactly m winners and a consistent outcome (all 18 rules)."""
import random
from . import elect as EL
from .. import domains as D

PID = "C01"
FAMILIES = ["stv", "oneshot", "composite", "tiered", "dictators", "veto"]
MC = {
    "quick": [dict(family="stv", max_ballots=2, max_w=1), dict(family="oneshot", max_ballots=1, max_w=2),
              dict(family="composite", max_ballots=2, max_w=1), dict(family="tiered", max_ballots=2, max_w=2),
              dict(family="dictators", max_ballots=2, max_w=1), dict(family="veto", max_ballots=2, max_w=2)],
    "thorough": [dict(family="stv", max_ballots=2, max_w=2, with_half=True), dict(family="droop", max_ballots=3, max_w=2),
                 dict(family="oneshot", max_ballots=2, max_w=1), dict(family="composite", max_ballots=2, max_w=2),
                 dict(family="tiered", max_ballots=3, max_w=2), dict(family="dictators", max_ballots=2, max_w=2, with_half=True),
                 dict(family="veto", max_ballots=3, max_w=2)],
}


def corpus(tier, seed):
    rng = random.Random(100 + seed)
    cands = ["A", "B", "C"]
    inputs = []
    q = tier == "quick"
    for fam in FAMILIES:
        pb = {"stv": 2, "oneshot": 2, "composite": 2, "tiered": 3, "dictators": 2, "veto": 1}[fam] if q else (12 if fam in ("stv", "oneshot", "composite") else None)
        inputs += EL.family_inputs(rng, fam, cands, 2, D.INT_W(2), per_bag=pb)
        if fam not in ("veto",):
            inputs += EL.family_inputs(rng, fam, cands, 1, D.HALF_W, per_bag=4 if q else None)
        inputs += EL.family_sampled(rng, fam, (60 if fam == "veto" else 150) if q else 3000, (4, 6), 8)
    # corners named in the statement: the empty ballot list, a single candidate, all ballots exhausting early
    for fam in FAMILIES:
        for c in EL.family_configs(fam, 1):
            inputs.append({"cfg": c, "cands": ["A"], "ballots": [{"r": [["A"]], "w": [2, 1]}], "mode": "explore"})
        for c in rng.sample(EL.family_configs(fam, 4), min(12 if q else 60, len(EL.family_configs(fam, 4)))):
            inputs.append({"cfg": c, "cands": ["A", "B", "C", "D"], "ballots": [{"r": [["A"]], "w": [3, 1]}, {"r": [["B"]], "w": [1, 1]}], "mode": "explore"})
    inputs = EL.add_slow_slice(rng, inputs, 150 if q else 2000)
    # ranked ballots that also carry scores (a Ballot may hold both): a ranking rule accepts them and reads the ranking only, so the run
    # must be the run of the same profile without the scores
    r3 = random.Random(131 + seed)
    for inp in r3.sample([i for i in inputs if "names" not in i and i["ballots"]], 200 if q else 3000):
        s = dict(inp)
        bl = [dict(b) for b in inp["ballots"]]
        for b in r3.sample(bl, r3.randint(1, len(bl))):
            b["s"] = [[c, [r3.randint(1, 3), 1]] for c in r3.sample(inp["cands"], r3.randint(1, len(inp["cands"])))]
        s["ballots"], s["mixed"] = bl, True
        inputs.append(s)
    return inputs


def score_rules(res, traces, verdicts, byid):
    """C01 also quantifies over Rating / Limited / Cumulative / Approval / BlocPlurality: a slice of the C05 corpus (accepted profiles only
    matter here) is validated by RatingTrace and the clauses that speak to C01 are kept: a valid profile rejected or an exception of the
    wrong class, a winner set that is not m candidates, rounds that do not partition the candidates"""
    from . import c05
    from ..calltrace import judge_calls
    from ..common import fork_pool
    import json as _json, os as _os
    if res.replayed:
        if not getattr(res, "replay_score_input", None):
            return
        inputs = [res.replay_score_input]
    else:
        inputs = c05.corpus(res.tier, res.seed)
        rng = random.Random(151 + res.seed)
        inputs = rng.sample(inputs, min(len(inputs), 1200 if res.tier == "quick" else 20000))
    with fork_pool(16) as pool:
        tr = [t for ts in pool.imap_unordered(c05.work, inputs, chunksize=16) for t in ts]
    tr.sort(key=lambda t: _json.dumps({k: v for k, v in t.items() if not k.startswith("_")}, sort_keys=True))

    def sig(t, rec):
        cl = rec["clause"]
        if cl in ("ValidProfileRejected", "Winners", "Rounds", "RoundNumber") or cl.startswith("Error:"):
            return "%s:%s" % (t["cfg"]["rule"], cl)
        return None         # limits, totals, tiebreak content: C05's and C10's matter
    judge_calls(res, PID, "RatingTrace", tr, sig_of=sig, what="score-ballot election: clause of C01")
    res.notes["score_rule_elections"] = len(tr)


def run(tier, seed, replay=None):
    return EL.standard_run(
        PID, tier, seed, replay, MC, corpus, nontrivial=lambda t: len(t["events"]) >= 1,
        repo_test_rules=EL.RANKING_ALL, wide={}, extra=score_rules,
        role3={"quick": [dict(family="tiered", max_ballots=2, max_w=2), dict(family="veto", max_ballots=2, max_w=1)],
               "thorough": [dict(family=f, max_ballots=2, max_w=1) for f in FAMILIES] + [dict(family="veto", max_ballots=2, max_w=2)]},
        rule_text="role 1: TLC exhaustive per rule family over every profile of <=K distinct rankings of 3 candidates x every "
                  "configuration x every random outcome (Partition, ExactlySeats, BoundedRounds, ErrorDiscipline, Progress, "
                  "MonotoneStatus, Termination under weak fairness); role 2: real runs of all 18 rules, every random branch "
                  "enumerated where feasible, validated by ElectionTrace with the same monitors on every logged round. "
                  "non-trivial = distinct (configuration, profile) with at least one recorded round or error")
