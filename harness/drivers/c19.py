"""C19 -- lp_dist is the p-norm of the difference of the normalised ranking distributions (a metric); BallotGraph has exactly the
stated nodes and edges and carries the profile's weights.

role 1: MC_Metrics -- metric axioms of Metrics.tla (symmetry, identity of indiscernibles, scale invariance, triangle inequality for
        L1 / Linf, bounds) on every triple of bags of <=2 untied rankings of 2 candidates, and the ballot-graph facts (node count
        formula, symmetric irreflexive adjacency, constructive edge set = definition, induced full-ballot subgraph) for n = 2..4 (5).
role 2: recorded lp_dist calls on triples (plus reordered / uncondensed / rescaled / zero-weight re-presentations), dumps of
        BallotGraph(n).graph for n = 2..6 and node weights of loaded profiles, compared by TLC (MetricsTrace) with Metrics.tla.

Floats: lp_dist returns numpy floats.  For p in {1, 'inf'} the harness logs the rational with denominator <= 10^4 nearest to the
float if it is within 1e-9 (relative), for p >= 2 the same for float**p (the exact p-th power of the distance is rational);
otherwise the value is logged as inexact and the specification rejects the trace.  Inputs are chosen so that the exact answer has
such a denominator (the common denominator D of the three distributions satisfies D**p <= 10^4).  The triangle inequality on the
ROOTS for p >= 2 is not expressible in rationals: it is checked numerically here on the code's own three outputs (tolerance 1e-9)
and shipped as the boolean `tri`; for p in {1, 'inf'} TLC checks it exactly.
"""
import random, os, json, math, itertools, multiprocessing as mp
from fractions import Fraction as F
from ..common import Result, OUT, scratch, run_tlc, Machinery, tlc_error_excerpt, rat, quiet, load_votekit
from ..common import fork_pool
from .. import domains as D
from ..calltrace import judge_calls

PID = "C19"
MC_INV = ["DistributionSumsToOne", "Symmetry", "Identity", "ScaleInvariant", "Triangle", "Bounds", "NodeWeightsTotal", "GraphFacts"]
NAMES = [n for n in D.AWKWARD]
DEN = 10 ** 4
DV = {"ok": True, "v": [0, 1]}


def base_trace(op):
    return {"op": op, "cands": [], "a": [], "b": [], "c": [], "p": 1, "vals": {"ab": dict(DV), "bc": dict(DV), "ac": dict(DV), "ba": dict(DV)},
            "vars": [], "selfs": [], "tri": True, "n": 0, "full": False, "nodes": [], "edges": [], "nkeys": 0, "fix": True, "nodew": [],
            "attrw": [], "total": [0, 1], "error": ""}


def qrat(x, p):
    """float returned by lp_dist -> logged exact value (of its p-th power for p >= 2), or inexact"""
    x = float(x)
    y = x ** p if p >= 2 else x
    if not math.isfinite(y):
        return {"ok": False, "v": [0, 0]}
    fr = F(y).limit_denominator(DEN)
    ok = abs(float(fr) - y) <= (1e-9 * abs(float(fr)) if fr != 0 else 1e-12)
    return {"ok": bool(ok), "v": rat(fr) if ok else [0, 0]}


def variants(rng, ballots):
    """re-presentations of one bag with the same distribution"""
    out = []
    sh = list(ballots)
    rng.shuffle(sh)
    out.append(("reorder", sh[::-1] if sh == list(ballots) else sh))
    un = []
    for b in ballots:
        w = F(*b["w"])
        k = rng.randint(1, 3)
        parts = [w / k] * k if rng.random() < 0.5 or k == 1 else ([w / 4, w * 3 / 4] if k == 2 else [w / 2, w / 3, w / 6])
        un += [{"r": b["r"], "w": rat(x)} for x in parts]
    rng.shuffle(un)
    out.append(("uncondense", un))
    s = rng.choice([F(2), F(3), F(1, 2), F(2, 3), F(7), F(5, 4)])
    out.append(("rescale", [{"r": b["r"], "w": rat(F(*b["w"]) * s)} for b in ballots]))
    z = list(ballots)
    zb = rng.choice(ballots)["r"]
    z.insert(rng.randint(0, len(z)), {"r": zb if rng.random() < 0.5 or not zb else [[c] for c in zb[0]], "w": [0, 1]})
    out.append(("zero", z))
    return out


def lp_work(inp):
    from .. import elections as E
    from votekit.metrics import lp_dist
    E.fast_df(True)
    rng = random.Random(inp["vseed"])
    t = base_trace("lp")
    t["cands"] = sorted(inp["cands"])
    for k in "abc":
        t[k] = E._abstract_bag(inp[k])
    p = inp["p"]
    t["p"] = p
    pv = "inf" if p == 0 else p
    var_list = variants(rng, inp["a"])          # harness work stays outside the try: only the library's exceptions are logged
    try:
        with quiet():
            mk = lambda bl: E.build_profile(inp["cands"], bl, inp.get("names"), inp.get("cand_order"))  # noqa
            A, B, C = mk(inp["a"]), mk(inp["b"]), mk(inp["c"])
            hist = rng.randrange(4)
            if hist == 1:           # the profiles have been looked at before: raw and standardized dictionaries requested in either order
                A.to_ranking_dict(); B.to_ranking_dict(standardize=True); C.to_ranking_dict()
            elif hist == 2:
                A.to_ranking_dict(standardize=True); A.to_ranking_dict(); B.to_ballot_dict()
            dab, dbc, dac, dba = lp_dist(A, B, pv), lp_dist(B, C, pv), lp_dist(A, C, pv), lp_dist(B, A, pv)
            t["vals"] = {"ab": qrat(dab, p), "bc": qrat(dbc, p), "ac": qrat(dac, p), "ba": qrat(dba, p)}
            t["tri"] = bool(float(dac) <= float(dab) + float(dbc) + 1e-9)
            for kind, bl in var_list:
                V = mk(bl)
                t["vars"].append(dict(qrat(lp_dist(V, B, pv), p), kind=kind))
                t["selfs"].append(dict(qrat(lp_dist(A, V, pv), p), kind=kind))
            t["selfs"].append(dict(qrat(lp_dist(A, A, pv), p), kind="same"))
    except Exception as ex:  # noqa
        t["error"] = type(ex).__name__
    return t


def graph_work(inp):
    from votekit.graphs import BallotGraph
    t = base_trace("graph")
    t["n"], t["full"] = inp["n"], inp["full"]
    try:
        with quiet():
            src = inp["n"] if inp["src"] == "int" else D.ABC[:inp["n"]]
            bg = BallotGraph(src, allow_partial=not inp["full"])
        t["nodes"] = sorted(list(nd) for nd in bg.graph.nodes)
        t["edges"] = sorted(sorted([list(u), list(v)]) for u, v in bg.graph.edges)
        t["nkeys"] = len(bg.node_weights)
    except Exception as ex:  # noqa
        t["error"] = type(ex).__name__
    return t


def weights_work(inp):
    from .. import elections as E
    from votekit.graphs import BallotGraph
    E.fast_df(True)
    t = base_trace("weights")
    order = inp.get("cand_order") or inp["cands"]
    t["cands"] = list(order)
    t["a"] = E._abstract_bag(inp["a"])
    t["fix"] = inp["fix"]
    names = inp.get("names") or {c: c for c in inp["cands"]}
    inv = {v: k for k, v in names.items()}
    try:
        with quiet():
            prof = E.build_profile(inp["cands"], inp["a"], inp.get("names"), inp.get("cand_order"))
            if inp["via"] == "ctor":
                bg = BallotGraph(prof, fix_short=inp["fix"])
            else:
                bg = BallotGraph(len(order) if inp["via"] == "int" else [names[c] for c in order])
                bg.from_profile(prof, fix_short=inp["fix"])
        cs = bg.candidates
        node = lambda nd: [inv[cs[i - 1]] for i in nd]  # noqa
        t["nodew"] = sorted([node(nd), rat(w)] for nd, w in bg.node_weights.items() if w != 0)
        t["attrw"] = sorted([node(nd), rat(w)] for nd, w in bg.graph.nodes(data="weight") if w != 0)
        t["nkeys"] = len(bg.node_weights)
        t["total"] = rat(sum(bg.node_weights.values()))
    except Exception as ex:  # noqa
        t["error"] = type(ex).__name__
    return t


def work(inp):
    load_votekit()
    t = {"lp": lp_work, "graph": graph_work, "weights": weights_work}[inp["kind"]](inp)
    t["_inp"] = inp
    return t


# ----------------------------------------------------------------------------- corpora
def lcm(*xs):
    out = 1
    for x in xs:
        out = out * x // math.gcd(out, x)
    return out


def common_den(*bags):
    d = 1
    for bag in bags:
        tot = sum(F(*b["w"]) for b in bag)
        for b in bag:
            d = lcm(d, (F(*b["w"]) / tot).denominator)
    return d


def den_ok(p, *bags):
    return common_den(*bags) ** max(p, 1) <= DEN


def bag_with_total(rng, rankings, total, max_ballots):
    k = rng.randint(1, min(total, max_ballots, len(rankings)))
    cuts = sorted(rng.sample(range(1, total), k - 1)) if k > 1 else []
    parts = [b - a for a, b in zip([0] + cuts, cuts + [total])]
    return [{"r": r, "w": [w, 1]} for r, w in zip(rng.sample(rankings, k), parts)]


TOTALS = {0: list(range(1, 31)), 1: list(range(1, 31)), 2: list(range(1, 13)) + [20, 25, 50], 3: [1, 2, 3, 4, 5, 6, 7, 10, 12, 14, 20, 21], 4: [1, 2, 3, 4, 5, 6, 8, 9, 10]}


def lp_corpus(tier, seed):
    rng = random.Random(1900 + seed)
    qk = tier == "quick"
    inputs = []
    # the MC space concretised: bags of <=2 untied rankings of {A, B}, weights {1, 2}
    rk2 = D.untied_rankings(["A", "B"])
    small = [b for b in D.bags(rk2, 2, D.INT_W(2)) if b]
    if qk:
        for i, (a, b) in enumerate(itertools.product(small, small)):
            inputs.append({"kind": "lp", "cands": ["A", "B"], "a": a, "b": b, "c": rng.choice(small), "p": [1, 0, 2, 3][i % 4], "vseed": rng.randrange(10 ** 6)})
    else:
        for i, (a, b, c) in enumerate(itertools.product(small, small, small)):
            inputs.append({"kind": "lp", "cands": ["A", "B"], "a": a, "b": b, "c": c, "p": [1, 0, 2, 3][i % 4], "vseed": rng.randrange(10 ** 6)})
    # random triples on 3..5 candidates, partial rankings, rational weights, chosen so that the exact answer has a small denominator
    want = 2000 if qk else 30000
    tries = 0
    while want and tries < 400000:
        tries += 1
        nc = rng.randint(3, 5)
        cands = D.ABC[:nc]
        rk = D.untied_rankings(cands)
        p = rng.choice([1, 1, 0, 0, 2, 2, 3, 4])
        tots = [rng.choice(TOTALS[p]) for _ in range(3)]
        if lcm(*tots) ** max(p, 1) > DEN:
            continue
        shared = rng.sample(rk, rng.randint(2, 6))            # overlapping supports
        bags = []
        for tt in tots:
            pool = shared + (rng.sample(rk, 2) if rng.random() < 0.5 else [])
            if rng.random() < 0.3:
                pool = pool + [[]]        # ballots without a ranking (blank / exhausted): one more point of the distribution
            pool = [list(x) for x in {json.dumps(r): r for r in pool}.values()]
            bag = bag_with_total(rng, pool, tt, 5)
            s = rng.choice([F(1), F(1), F(1, 2), F(2, 3), F(3), F(5, 2)])
            bags.append([{"r": b["r"], "w": rat(F(*b["w"]) * s)} for b in bag])
        if rng.random() < 0.1:
            bags[1] = [{"r": b["r"], "w": rat(F(*b["w"]) * 3)} for b in bags[0]][::-1]     # same distribution, different presentation
        if not den_ok(p, *bags):
            continue
        inp = {"kind": "lp", "cands": cands, "a": bags[0], "b": bags[1], "c": bags[2], "p": p, "vseed": rng.randrange(10 ** 6)}
        if rng.random() < 0.3:
            inp["names"] = dict(zip(cands, rng.sample(NAMES, nc)))
            order = list(cands)
            rng.shuffle(order)
            inp["cand_order"] = order
        inputs.append(inp)
        want -= 1
    return inputs


def graph_corpus(tier):
    top = 6
    return [{"kind": "graph", "n": n, "full": full, "src": src} for n in range(2, top + 1) for full in (False, True) for src in ("int", "list")]


def weights_corpus(tier, seed):
    rng = random.Random(1950 + seed)
    qk = tier == "quick"
    inputs = []
    for n in (2, 3):
        cands = D.ABC[:n]
        for bag in D.bags(D.untied_rankings(cands), 2, D.INT_W(2)):
            if not bag:
                continue
            for fix in (True, False):
                for via in ("ctor", "int", "list"):
                    if qk and n == 3 and rng.random() < 0.6:
                        continue
                    inputs.append({"kind": "weights", "cands": cands, "a": bag, "fix": fix, "via": via})
    for _ in range(600 if qk else 16000):
        n = rng.randint(2, 6)
        cands = D.ABC[:n]
        bag = []
        for _ in range(rng.randint(1, 6)):
            ln = rng.choice([n, n, n - 1, n - 1, rng.randint(1, n)]) or 1
            w = F(rng.randint(1, 9), rng.choice([1, 1, 1, 2, 3]))
            bag.append({"r": [[c] for c in rng.sample(cands, ln)], "w": rat(w)})
        inp = {"kind": "weights", "cands": cands, "a": bag, "fix": rng.random() < 0.7, "via": rng.choice(["ctor", "ctor", "int", "list"])}
        if rng.random() < 0.5:
            inp["names"] = dict(zip(cands, rng.sample(NAMES, n)))
            order = list(cands)
            rng.shuffle(order)
            inp["cand_order"] = order
        inputs.append(inp)
    return inputs


def wide_lp(res, tier, seed):
    """electorates of 10^4 .. 10^7 voters whose distributions differ by a handful of voters (ranking shares 1e-4 .. 1e-7 apart): the
    cross-multiplied shares leave TLC's 32-bit range, so Metrics!LpDist is read in exact Python fractions here (declared in evidence as
    python_compared): identity of indiscernibles (d = 0 iff the distributions are equal), symmetry, triangle inequality, and the value
    itself to a relative 1e-9."""
    load_votekit()
    from .. import elections as E
    from votekit.metrics import lp_dist
    E.fast_df(True)
    rng = random.Random(1990 + seed)
    n = 0
    for _ in range(120 if tier == "quick" else 2500):
        nc = rng.randint(3, 5)
        cands = D.ABC[:nc]
        rk = rng.sample(D.untied_rankings(cands), rng.randint(2, 5))
        scale = rng.choice([10**4, 10**5, 10**6, 10**7])
        base = [rng.randint(1, 9) * scale + rng.randint(0, 99) for _ in rk]

        def perturbed():
            w = list(base)
            for _ in range(rng.randint(0, 3)):
                i, j = rng.randrange(len(w)), rng.randrange(len(w))
                k = rng.randint(1, 5)
                if i != j and w[i] > k:
                    w[i] -= k
                    w[j] += k
            return w
        ws = [base, perturbed(), perturbed()]
        if rng.random() < 0.15:
            ws[1] = [3 * x for x in base]                   # the same distribution at another scale
        profs = [E.build_profile(cands, [{"r": r, "w": [x, 1]} for r, x in zip(rk, w)]) for w in ws]
        p = rng.choice([1, 1, 2, 3, "inf"])

        def exact(u, v):
            su, sv = sum(u), sum(v)
            diffs = [abs(F(a, su) - F(b, sv)) for a, b in zip(u, v)]
            if p == "inf":
                return float(max(diffs))
            return float(sum(d ** p for d in diffs)) ** (1.0 / p) if p > 1 else float(sum(diffs))
        n += 1
        try:
            with quiet():
                d = {(i, j): float(lp_dist(profs[i], profs[j], p)) for i in range(3) for j in range(3)}
        except Exception as ex:  # noqa
            res.violation("lp_dist:WideElectorates(py):Error", "%s on electorates of about %d voters" % (type(ex).__name__, scale), {"weights": ws, "p": p})
            continue
        bad = None
        for i in range(3):
            for j in range(3):
                e = exact(ws[i], ws[j])
                if (e == 0) != (d[i, j] == 0):
                    bad = bad or "Identity"
                elif abs(d[i, j] - e) > 1e-9 * max(e, 1e-300) + 1e-15:
                    bad = bad or "Value"
                if d[i, j] != d[j, i]:
                    bad = bad or "Symmetry"
        if not bad and d[0, 2] > d[0, 1] + d[1, 2] + 1e-12:
            bad = "Triangle"
        if bad:
            res.violation("lp_dist:WideElectorates(py):%s" % bad, "lp_dist (p=%s) on electorates of about %d voters whose distributions differ by a few voters: "
                          "clause %s of the exact-fraction reading of Metrics!LpDist" % (p, scale, bad),
                          {"rankings": rk, "weights": ws, "p": p, "returned": {"%d%d" % k: v for k, v in d.items()}})
    res.notes["python_compared"] = n
    res.notes["python_compared_note"] = ("lp_dist on electorates of 10^4-10^7 voters (shares 1e-4..1e-7 apart) is compared with the exact-fraction reading of "
                                         "Metrics!LpDist: identity, symmetry, triangle, value to 1e-9 relative")


def sig_of(t, rec):
    op = {"lp": "lp_dist", "graph": "ballot_graph", "weights": "ballot_graph_weights"}[t["op"]]
    extra = ""
    if t["op"] == "lp":
        extra = "[p=%s]" % ("inf" if t["p"] == 0 else "1" if t["p"] == 1 else ">=2")
    return "%s%s:%s" % (op, extra, rec["clause"])


def run(tier, seed, replay=None):
    res = Result(PID, tier, seed)
    scratch(PID)
    qk = tier == "quick"
    res.rule = ("role 1: MC_Metrics -- every triple of bags of <=2 untied rankings of 2 candidates with weights %s: symmetry, zero iff same "
                "distribution, scale invariance, triangle inequality (L1, Linf exactly), bounds; ballot-graph facts for n = 2..%d. role 2: "
                "lp_dist on triples (the MC space concretised, and random triples on 3-5 candidates with partial rankings and rational "
                "weights; p in {1, 2, 3, 4, 'inf'}), each with reordered / uncondensed / rescaled / zero-weight re-presentations, values "
                "compared exactly by TLC after rational reconstruction (root triangle inequality for p >= 2: numerical, in the harness); "
                "BallotGraph(n).graph for n = 2..6 (int and list source, allow_partial on/off) compared node for node and edge for edge "
                "with Nodes(n) / Edges(n) evaluated by TLC; node weights of loaded profiles (constructor and from_profile, fix_short "
                "on/off, ballots of length n-1). non-trivial = distinct lp triples with two different distributions, graph dumps, and "
                "weight cases with a ballot of length n-1 or a repeated ranking" % ("{1,2}" if qk else "{1,2,3}", 4 if qk else 5))
    if replay:
        inputs = [json.load(open(replay))["replay"]["input"]]
    else:
        cfg = ('CONSTANTS\n Cand = {"A","B"}\n MaxBallots = 2\n Weights = {%s}\n MaxN = %d\nSPECIFICATION Spec\n' % ("1,2" if qk else "1,2,3", 4 if qk else 5)
               + "".join("INVARIANT %s\n" % i for i in MC_INV) + "CHECK_DEADLOCK FALSE\n")
        r = run_tlc("MC_Metrics", cfg, os.path.join(OUT, PID, "mc_metrics"))
        res.add_tlc("MC_Metrics 2c/<=2b/w%s/n<=%d" % ("<=2" if qk else "<=3", 4 if qk else 5), r)
        if r["hard"]:
            raise Machinery("TLC failed on MC_Metrics: " + tlc_error_excerpt(r["out"]))
        if r["violated"]:
            res.violation("spec:MC_Metrics:%s" % r["violated"], "the metric / ballot-graph definitions violate %s" % r["violated"], {})
        inputs = lp_corpus(tier, seed) + graph_corpus(tier) + weights_corpus(tier, seed)
    res.evaluations = len(inputs)
    with fork_pool(16) as pool:
        traces = list(pool.imap_unordered(work, inputs, chunksize=8))
    traces.sort(key=lambda t: json.dumps({k: v for k, v in t.items() if not k.startswith("_")}, sort_keys=True))
    counts = {}
    for t in traces:
        counts[t["op"]] = counts.get(t["op"], 0) + 1
        if t["op"] == "lp":
            nt = t["vals"]["ab"]["v"][0] != 0
        elif t["op"] == "graph":
            nt = True
        else:
            n = len(t["cands"])
            nt = any(len(b["r"]) == n - 1 for b in t["_inp"]["a"]) or len(t["a"]) < len(t["_inp"]["a"])
        if nt:
            res.nontrivial.add(json.dumps([t["op"], t["cands"], t["a"], t["b"], t["c"], t["p"], t["n"], t["full"], t["fix"]]))
    pub = lambda t: {k: v for k, v in t.items() if not k.startswith("_")}  # noqa
    for pick in (lambda t: t["op"] == "lp" and t["vals"]["ab"]["v"][0] != 0 and len(t["cands"]) > 2, lambda t: t["op"] == "graph" and t["n"] == 3 and not t["full"],
                 lambda t: t["op"] == "weights" and len(t["cands"]) >= 3 and len(t["a"]) >= 2, lambda t: t["op"] == "lp" and t["p"] == 0):
        for t in traces:
            if pick(t):
                res.sample(pub(t))
                break
    while len(res.samples) < 4 and traces:
        res.sample({"op": traces[0]["op"], "note": "filler so that no multi-kilobyte graph dump is sampled"})
    judge_calls(res, PID, "MetricsTrace", traces, sig_of=sig_of, what="lp_dist / BallotGraph disagrees with the statement", inexact_is_violation=False)
    if not replay:
        wide_lp(res, tier, seed)
    res.notes["calls_by_op"] = counts
    res.notes["graph_n_checked_by_tlc"] = sorted({t["n"] for t in traces if t["op"] == "graph"})
    res.notes["float_policy"] = ("lp_dist floats logged as nearest rational with denominator <= 10^4 when within 1e-9 relative, else 'inexact' "
                                 "(rejected by the spec); root triangle inequality for p >= 2 checked numerically in the harness")
    return res
