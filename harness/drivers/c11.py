"""C11 -- Ballot and profile values are exact, immutable and condense / compare by content.

role 1: spec/MC_ProfileADT.tla (laws of the abstract value model on every pair of ballot *sequences* over a small alphabet);
role 2: spec/ProfileADTTrace.tla validates recorded operations of the real Ballot / PreferenceProfile code.

Environment: C11_SKIP_KNOWN=1 (default off) leaves out the input classes of the findings already reported for this
property (see notes/C11_C12_report.md): profiles in which two ballots share a ranking and exactly one of them has scores
("MixedScored"), the two concrete spellings of an empty ranking (None vs ()) next to each other ("EmptyRepr") and
zero-weight ballots in == ("ZeroWeight").  It exists to show that nothing else fails; the check proper never sets it.
"""
import random, os, json, itertools, multiprocessing as mp
from fractions import Fraction as F
from ..common import Result, OUT, scratch, run_tlc, Machinery, tlc_error_excerpt
from ..common import fork_pool
from .. import domains as D
from ..calltrace import judge_calls

PID = "C11"
SINGLE_INV = ["CondenseDistinct", "CondenseConserves", "CondenseIdempotent", "CondenseOrderIndependent", "DerivedStable", "RemovalConserves",
              "RemovalNoMention", "RemovalKeepsOrder", "RemoveNothing", "RemovalCommutesWithCondense", "DedupOK", "AddMissingOK", "ExpandEachOnce",
              "ExpandPreservesFpv", "ExpandPreservesBorda", "ExpandPreservesMargins"]
PAIR_INV = ["EqIffSameBag", "EqSymmetric", "EqCondense", "AddAddsBags", "AddCommutes", "AddDerived"]
CONTROLS = ["ControlBadCondenseConserves", "ControlBadCondenseOrderIndependent", "ControlOneOrderPreservesFpv"]
W3 = [[1, 1], [2, 1], [1, 2]]
W8 = [[1, 1], [2, 1], [3, 1], [1, 2], [3, 2], [1, 3], [2, 3], [1, 4]]
SVALS = [[1, 1], [2, 1], [1, 2], [3, 1], [5, 2]]


def mc_cfg(maxp, maxq, invs, alpha="full"):
    return ("CONSTANTS\n Cand = {\"A\",\"B\"}\n MaxP = %d\n MaxQ = %d\n Alpha = \"%s\"\nSPECIFICATION Spec\n" % (maxp, maxq, alpha)
            + "".join("INVARIANT %s\n" % i for i in invs) + "CHECK_DEADLOCK FALSE\n")


def model_check(res, pid, tier, single=SINGLE_INV, pair=PAIR_INV):
    from concurrent.futures import ThreadPoolExecutor
    runs = [("single profile <=3 ballots, 8 contents x 3 weights", mc_cfg(3, 0, single), "mc_single", 8)]
    if tier == "quick":
        runs += [("two profiles <=2 / <=2 ballots, 5 contents x 3 weights", mc_cfg(2, 2, pair, "small"), "mc_pair22s", 8),
                 ("two profiles <=2 / <=1 ballots, 8 contents x 3 weights", mc_cfg(2, 1, pair), "mc_pair21", 8)]
    else:
        runs += [("two profiles <=2 / <=2 ballots, 8 contents x 3 weights", mc_cfg(2, 2, pair), "mc_pair", 16)]
        # (<=3 / <=2 over all 8 contents is 8.7 million states: 2.5 min on an idle 16-core machine, 22 min measured on a machine with load
        #  average 250; the two runs below cover the same shapes in 1.2 million states)
        runs += [("two profiles <=3 / <=2 ballots, 5 contents x 3 weights", mc_cfg(3, 2, pair, "small"), "mc_pair32", 16),
                 ("two profiles <=3 / <=1 ballots, 8 contents x 3 weights", mc_cfg(3, 1, pair), "mc_pair31", 8)]
    # negative controls: a ranking-keyed condense and a one-order tie expansion must be caught by the same kind of invariant
    runs += [("control " + c, mc_cfg(2, 0, [c]), "mc_control_" + c, 2) for c in CONTROLS]
    with ThreadPoolExecutor(max_workers=len(runs)) as ex:
        results = list(ex.map(lambda x: run_tlc("MC_ProfileADT", x[1], os.path.join(OUT, pid, x[2]), workers=x[3]), runs))
    caught = {}
    for (name, cfg, wd, _), r in zip(runs, results):
        if r["hard"]:
            raise Machinery("TLC failed on MC_ProfileADT (%s): %s" % (name, tlc_error_excerpt(r["out"])))
        if name.startswith("control "):
            caught[name[8:]] = bool(r["violated"])
            if not r["violated"]:
                raise Machinery("negative control %s was not violated: the model cannot tell a wrong design from a right one" % name[8:])
            continue
        res.add_tlc("MC_ProfileADT " + name, r)
        if r["violated"]:
            res.violation("spec:MC_ProfileADT:%s" % r["violated"], "the value model violates %s" % r["violated"], {})
    res.notes["mc_negative_controls_violated"] = caught


# ------------------------------------------------------------------------------------------------ corpus
def contents(cands, tied=True, score_opts=None):
    rks = [[]] + (D.weak_rankings(cands) if tied else D.untied_rankings(cands))
    if score_opts is None:
        score_opts = [[], [[cands[0], [1, 1]]], [[cands[0], [1, 1]], [cands[1], [2, 1]]], [[cands[1], [1, 2]]]]
    return [{"r": r, "s": s} for r in rks for s in score_opts]


def decorate(rng, b, w):
    """concrete spelling of one abstract ballot: how numbers are passed, ids, voter sets, zero scores -- none of it may matter"""
    b = {"r": b["r"], "s": b["s"], "w": list(w)}
    b["wk"] = rng.choice(["int", "frac", "float"])
    b["sk"] = rng.choice(["int", "frac", "float"])
    if rng.random() < 0.3:
        b["id"] = "id%d" % rng.randrange(3)
    if rng.random() < 0.3:
        b["vs"] = ["v%d" % rng.randrange(4) for _ in range(rng.randint(1, 2))]
    if rng.random() < 0.25:
        b["z"] = ["Zero"]
    if rng.random() < 0.5:
        b["srev"] = True
    return b


def orders_of(rng, bl, k=3):
    perms = []
    for p in itertools.permutations(range(len(bl))):
        o = [bl[i] for i in p]
        if o not in perms:
            perms.append(o)
        if len(perms) >= 24:
            break
    first = perms[0]
    rest = perms[1:]
    rng.shuffle(rest)
    rev = list(reversed(first))
    out = [first] + ([rev] if rev != first else [])
    for o in rest:
        if len(out) >= k:
            break
        if o not in out:
            out.append(o)
    return out


def variants_for_eq(rng, bl, pool):
    """right-hand sides for ==: same bag in another spelling, and near misses"""
    from ..adt import abstract
    out = []
    sh = list(bl)
    rng.shuffle(sh)
    out.append(sh)
    # merged / split spelling of the same bag
    merged = {}
    for b in bl:
        k = json.dumps([b["r"], b["s"]])
        merged[k] = merged.get(k, F(0)) + F(*b["w"])
    m = []
    for k, w in merged.items():
        r, s = json.loads(k)
        if rng.random() < 0.5 and w > 0:
            m += [{"r": r, "s": s, "w": [(w / 2).numerator, (w / 2).denominator]}] * 2
        else:
            m.append({"r": r, "s": s, "w": [w.numerator, w.denominator]})
    rng.shuffle(m)
    out.append([decorate(rng, b, b["w"]) for b in m])
    if bl:
        i = rng.randrange(len(bl))
        nb = dict(bl[i])
        nb["w"] = rng.choice([w for w in W8 if w != nb["w"]])
        out.append(bl[:i] + [nb] + bl[i + 1:])                      # one weight changed
        nb = dict(bl[i])
        nb["s"] = [] if nb["s"] else [["A", [1, 1]]]
        nb.pop("z", None)
        out.append(bl[:i] + [nb] + bl[i + 1:])                      # scores dropped / added on one ballot
        out.append(bl[:i] + bl[i + 1:])                             # one ballot missing
    c = rng.choice(pool)
    out.append(bl + [decorate(rng, c, rng.choice(W3))])             # one ballot more
    return out


def corpus(tier, seed):
    from ..adt import mixed_scored
    rng = random.Random(1100 + seed)
    q = tier == "quick"
    skip = os.environ.get("C11_SKIP_KNOWN") == "1"
    inputs = []
    c2 = contents(["A", "B"])
    alpha = [(c, w) for c in c2 for w in W3]                          # 24 contents x 3 weights
    small = [[]] + [[a] for a in alpha] + [list(p) for p in itertools.combinations_with_replacement(alpha, 2)]
    c3 = contents(["A", "B", "C"], score_opts=[[], [["A", [1, 1]]], [["B", [2, 1]], ["C", [1, 2]]], [["A", [3, 1]], ["C", [1, 1]]]])
    c4 = contents(["A", "B", "C", "D"], score_opts=[[], [["D", [1, 1]]], [["A", [2, 1]], ["D", [5, 2]]]])

    def sampled(n, cs, kmin, kmax, ws):
        out = []
        for _ in range(n):
            pool = rng.sample(cs, 3)
            twin = dict(rng.choice(pool))
            twin["s"] = [] if twin["s"] else rng.choice([c for c in cs if c["s"]])["s"]
            pool.append(twin)                                          # same ranking, other scores: collisions on purpose
            out.append([(rng.choice(pool), rng.choice(ws)) for _ in range(rng.randint(kmin, kmax))])
        return out

    multisets = [(m, True) for m in small]                             # exhaustive part
    multisets += [(m, False) for m in sampled(700 if q else 20000, c2, 3, 3, W3)]
    multisets += [(m, False) for m in sampled(500 if q else 12000, c3, 2, 5, W8)]
    multisets += [(m, False) for m in sampled(300 if q else 8000, c4, 2, 6, W8)]
    for m, exhaustive in multisets:
        bl = [decorate(rng, c, w) for c, w in m]
        if skip and mixed_scored(bl):
            continue
        inputs.append({"op": "condense", "orders": orders_of(rng, bl)})
        if exhaustive and len(bl) == 2 or rng.random() < 0.25:
            inputs.append({"op": "dicts", "orders": orders_of(rng, bl, 2)})
        if rng.random() < (0.35 if q else 1.0):
            cl = sorted({c for b in bl for p in b["r"] for c in p} | {c for b in bl for c, _ in b["s"]} | {"Zero", "Q"})
            kind = rng.choice(["none", "given", "dup", "bogus"])
            p = {"op": "profile", "ballots": bl}
            if kind == "given":
                rng.shuffle(cl)
                p["candlist"] = cl
            elif kind == "dup":
                p["candlist"] = cl + [rng.choice(cl)]
            elif kind == "bogus":
                p["bogus"] = True
            inputs.append(p)
        if rng.random() < (0.5 if q else 1.0):
            pool = c2 if exhaustive else c3
            for R in variants_for_eq(rng, bl, pool):
                if skip and (mixed_scored(R)):
                    continue
                inputs.append({"op": "eq", "L": bl, "R": R})
            R = [decorate(rng, rng.choice(pool), rng.choice(W3)) for _ in range(rng.randint(0, 3))] + ([rng.choice(bl)] if bl and rng.random() < 0.5 else [])
            inputs.append({"op": "add", "L": bl, "R": R})
            if not (skip and mixed_scored(R)):
                inputs.append({"op": "eq", "L": bl, "R": R})
        if rng.random() < 0.05:
            inputs.append({"op": "immutable", "what": "profile", "ballots": bl})
            if bl:
                inputs.append({"op": "immutable", "what": "ballot", "ballots": bl[:1]})
    # --- the two concrete spellings of "no ranking" next to each other, and zero-weight ballots in ==
    if not skip:
        for _ in range(40 if q else 400):
            m = [decorate(rng, rng.choice(c2), rng.choice(W3)) for _ in range(rng.randint(0, 2))]
            e1 = {"r": [], "s": [], "w": rng.choice(W3)}
            e2 = {"r": [], "s": [], "w": rng.choice(W3), "rk": "tuple"}
            bl = m + [e1, e2]
            rng.shuffle(bl)
            if mixed_scored(bl):
                continue
            inputs.append({"op": "condense", "orders": orders_of(rng, bl), "variant": "EmptyRepr"})
            inputs.append({"op": "eq", "L": bl, "R": m + [e1, dict(e2, rk="none")], "variant": "EmptyRepr"})
        for _ in range(40 if q else 400):
            m = [decorate(rng, rng.choice(c2), rng.choice(W3)) for _ in range(rng.randint(0, 3))]
            z = dict(decorate(rng, rng.choice(c2), [0, 1]))
            bl = m + [z]
            rng.shuffle(bl)
            if mixed_scored(bl):
                continue
            inputs.append({"op": "eq", "L": bl, "R": m, "variant": "ZeroWeight"})
            inputs.append({"op": "condense", "orders": orders_of(rng, bl), "variant": "ZeroWeightCondense"})
    # --- cross-paired contents: the same rankings and the same score sets with the same weights, but paired the other way round
    #     (equal ranking marginals, equal score marginals, different profiles)
    rk_pool = [[["A"], ["B"]], [["B"], ["A"]], [["A", "B"]], [["C"]], [["B"], ["C"], ["A"]]]
    sc_pool = [[["A", [2, 1]]], [["B", [1, 1]]], [["A", [1, 2]], ["C", [1, 1]]], [["C", [3, 1]]]]
    for _ in range(60 if q else 1500):
        r1, r2 = rng.sample(rk_pool, 2)
        s1, s2 = rng.sample(sc_pool, 2)
        w = rng.choice(W3)
        extra = [decorate(rng, rng.choice(c3), rng.choice(W3)) for _ in range(rng.randint(0, 2))]
        L = [decorate(rng, {"r": r1, "s": s1}, w), decorate(rng, {"r": r2, "s": s2}, w)] + extra
        R = [decorate(rng, {"r": r1, "s": s2}, w), decorate(rng, {"r": r2, "s": s1}, w)] + extra
        rng.shuffle(L)
        rng.shuffle(R)
        inputs.append({"op": "eq", "L": L, "R": R})
        inputs.append({"op": "condense", "orders": orders_of(rng, L + R)})
    # --- exactness of stored numbers
    kinds = ["int", "frac", "float"]

    def exact(wk, wp, wq, scores, ranking=None):
        return {"op": "ballot", "exact": [{"k": wk, "c": "", "p": wp, "q": wq}] + [{"k": k, "c": c, "p": p_, "q": q_} for c, k, p_, q_ in scores],
                "ranking": ranking}
    for p_ in range(0, 13):
        for q_ in range(1, 13):
            for k in kinds:
                if k == "int" and q_ != 1:
                    continue
                inputs.append(exact(k, p_, q_, [("A", k, p_, q_), ("B", rng.choice(kinds[1:]), rng.randint(0, 3), rng.randint(1, 7))]))
    for _ in range(600 if q else 20000):
        def pq(k):
            return (rng.randint(0, 1000), 1) if k == "int" else (rng.randint(0, 1000), rng.randint(1, 1000))
        wk = rng.choice(kinds)
        sc = []
        for c in rng.sample(["A", "B", "C", "D"], rng.randint(0, 3)):
            k = rng.choice(kinds)
            sc.append((c, k) + (pq(k) if rng.random() < 0.85 else (0, 1)))
        inputs.append(exact(wk, *pq(wk), sc, ranking=rng.choice([None, [["A"], ["B", "C"]]])))
    inputs.append({"op": "ballot", "exact": [{"k": "default", "c": "", "p": 1, "q": 1}], "ranking": None})     # default weight is 1
    # denominators up to one million (values below 1000 so that p/q is the closest fraction to the float)
    for _ in range(150 if q else 5000):
        q_ = rng.choice([10**6, 999983, 999999, rng.randint(1001, 10**6), rng.randint(10**5, 10**6)])
        p_ = rng.randint(1, min(q_ * 2, 2 * 10**6))
        k = rng.choice(["frac", "float"])
        inputs.append(exact(k, p_, q_, [("A", rng.choice(["frac", "float"]), rng.randint(1, 10**6), rng.choice([10**6, 999983, rng.randint(1001, 10**6)]))]))
    # --- a slice through awkward concrete names and the real pandas frame
    base = [i for i in inputs if i["op"] in ("condense", "eq", "add", "profile", "dicts") and "variant" not in i]
    for inp in rng.sample(base, min(len(base), 250 if q else 3000)):
        bl = inp["ballots"] if "ballots" in inp else inp["L"] if "L" in inp else inp["orders"][0]      # (an empty list is a legitimate value)
        cands = sorted({c for bb in ([bl] + ([inp["R"]] if "R" in inp else [])) for b in bb for p in b["r"] for c in p}
                       | {c for bb in ([bl] + ([inp["R"]] if "R" in inp else [])) for b in bb for c, _ in b["s"]} | {"Zero", "Q"})
        if len(cands) > len(D.AWKWARD):
            continue
        conc = D.concretisations(rng, cands, [], 1)[0]
        j = dict(inp)
        j["names"] = conc["names"]
        j["real_df"] = True
        if "candlist" in j:
            j["candlist"] = [c for c in conc["cand_order"]] + (j["candlist"][-1:] if len(j["candlist"]) > len(set(j["candlist"])) else [])
        inputs.append(j)
    return inputs


def sig_of(t, rec):
    v = (t.get("_inp") or {}).get("variant")
    return rec["clause"] + ("/" + v if v else "")


def nontrivial_key(t):
    if t["op"] in ("condense", "dicts"):
        bl = t["ins"][0]
        ks = [json.dumps([b["r"], b["s"]]) for b in bl]
        if len(set(ks)) < len(ks) or len({json.dumps(b["r"]) for b in bl}) < len(set(ks)):     # a repeated content, or one ranking with two score sets
            return json.dumps([t["op"], sorted(ks), sorted(json.dumps(b) for b in bl)])
    elif t["op"] in ("eq", "add"):
        if t["ins"][0] and t["ins"][1]:
            return json.dumps([t["op"], t["ins"]])
    elif t["op"] == "ballot":
        if any(e["k"] == "float" or e["p"] == 0 for e in t["exact"]):
            return json.dumps(t["exact"])
    elif t["op"] == "profile":
        if t["candlist"] or any(b["w"][0] == 0 for b in t["ins"][0]) or len(t["ins"][0]) > 1:
            return json.dumps([t["ins"], t["candlist"]])
    return None


def wide_exact(res, tier, seed):
    """weights and scores whose denominator is small (<= 10^6, the promised range) but whose value is beyond TLC's integers and beyond the
    53 bits of a double: stored unchanged (python_compared)"""
    from ..common import load_votekit
    load_votekit()
    from votekit import Ballot
    rng = random.Random(1111 + seed)
    n = 0
    for _ in range(200 if tier == "quick" else 4000):
        den = rng.choice([2, 3, 7, 1000, 999983, 10**6])
        big = rng.choice([2**53, 2**54, 10**16, 3 * 10**6, 10**9, 2**62])
        w = F(big * den + rng.randint(1, den - 1), den)
        sc = F(rng.choice([2**53, 10**12]) * den + rng.randint(1, den - 1), den)
        n += 1
        try:
            b = Ballot(ranking=(frozenset({"A"}),), weight=w, scores={"A": sc} if rng.random() < 0.5 else None)
            bad = b.weight != w or (b.scores is not None and b.scores.get("A") != sc)
        except Exception as ex:  # noqa
            res.violation("Ballot:WideExact(py):Error", "%s for weight %s" % (type(ex).__name__, w), {"weight": str(w), "score": str(sc)})
            continue
        if bad:
            res.violation("Ballot:WideExact(py)", "a weight / score with denominator %d is not stored unchanged: %s -> %s" % (den, w, b.weight),
                          {"weight": str(w), "score": str(sc), "stored_weight": str(b.weight), "stored_scores": str(b.scores)})
    res.notes["python_compared"] = n
    res.notes["python_compared_note"] = "weights / scores with denominators <= 10^6 and values up to 2^62: stored unchanged"


def run(tier, seed, replay=None):
    from .. import adt
    res = Result(PID, tier, seed)
    scratch(PID)
    res.rule = ("role 1: MC_ProfileADT -- every profile *sequence* of <=3 ballots over 8 contents (ranked, scored, both with the same ranking, neither, "
                "tie, short, repeated candidate) x weights {1,2,1/2}, and every pair of such sequences (quick: <=2/<=2 over 5 contents and <=2/<=1 over 8; "
                "thorough: <=2/<=2 and <=3/<=1 over 8 contents, <=3/<=2 over 5): condense distinct / "
                "conserving / idempotent / independent of order, == iff same bag, + adds bags, removal conserves weight per image, tie expansion "
                "preserves first-place, Borda and pairwise totals; three negative controls must be violated.  role 2: recorded operations of the "
                "real code (Ballot(...) with int / Fraction / float weights and scores p/q, attribute assignment and deletion on ballots and "
                "profiles, PreferenceProfile(...) derived fields with and without (duplicate) candidate lists and bogus derived arguments, "
                "condense_ballots on the same multiset in 2-3 ballot orders and twice, ==, !=, +, to_*_dict) on EVERY multiset of <=2 ballots over "
                "24 contents x 3 weights of 2 candidates plus seeded multisets of 3-6 ballots over 2-4 candidates with deliberate content "
                "collisions, a slice through awkward names and the real pandas frame; each trace is compared with ProfileADT.tla by TLC. "
                "non-trivial = distinct condense/dict calls with a repeated content or one ranking carrying two score sets, ==/+ on two non-empty "
                "profiles, Ballot() calls with a float or a zero, profiles with several ballots / a candidate list / a zero weight")
    if replay:
        calls = [json.load(open(replay))["replay"]["input"]]
    else:
        model_check(res, PID, tier)
        calls = corpus(tier, seed)
    res.evaluations = len(calls)
    with fork_pool(16) as pool:
        traces = [t for ts in pool.imap_unordered(adt.c11_work, calls, chunksize=32) for t in ts]
    traces.sort(key=adt.trace_key)
    for t in traces:
        k = nontrivial_key(t)
        if k:
            res.nontrivial.add(k)
    judge_calls(res, PID, "ProfileADTTrace", traces, sig_of=sig_of, what="Ballot/PreferenceProfile operation disagrees with the value model")
    if not replay:
        wide_exact(res, tier, seed)
    res.exhaustive = False
    ops = {}
    for t in traces:
        ops[t["op"]] = ops.get(t["op"], 0) + 1
    res.notes["calls_by_op"] = ops
    res.notes["skip_known"] = os.environ.get("C11_SKIP_KNOWN") == "1"
    res.notes["exhaustive_part"] = "all 2,701 multisets of <=2 ballots over 24 contents x 3 weights (2 candidates), both orders"
    return res
