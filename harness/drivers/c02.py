"""C02 -- each STV / IRV / SequentialRCV round is a legal step of the documented count."""
import random, os, json
from ..common import Result, OUT, scratch
from .. import domains as D
from . import elect as EL
from ..elections import base_cfg

PID = "C02"


def stv_config(rng, nc, rules=("STV", "STV", "STV", "SequentialRCV", "IRV")):
    r = rng.choice(rules)
    x = "full" if r == "SequentialRCV" else ("fractional" if r == "IRV" else rng.choice(["fractional", "fractional", "random"]))
    return base_cfg(rule=r, m=1 if r == "IRV" else rng.randint(1, nc), quota=rng.choice(["droop", "droop", "hare"]),
                    simul=True if r == "IRV" else rng.random() < 0.5, xfer=x, tb=rng.choice(["none", "random", "borda", "first_place"]))


def corpus(tier, seed, rules=("STV", "SequentialRCV", "IRV")):
    rng = random.Random(1000 + seed)
    cands = ["A", "B", "C"]
    rk = D.untied_rankings(cands)
    cfgs = D.stv_configs(3, rules=rules)
    if tier == "quick":
        inputs = EL.inputs_exhaustive(rng, cands, rk, 2, D.INT_W(2), cfgs, per_bag=8)
        inputs += EL.inputs_exhaustive(rng, cands, rk, 2, D.HALF_W, cfgs, per_bag=2)
        inputs += EL.inputs_sampled(rng, 500, (4, 5), 6, lambda r, nc: stv_config(r, nc, [x for x in rules for _ in range(2)] + ["STV"] if "STV" in rules else list(rules)))
    else:
        inputs = EL.inputs_exhaustive(rng, cands, rk, 2, D.INT_W(2) + D.HALF_W, cfgs, per_bag=None)
        inputs += EL.inputs_exhaustive(rng, cands, rk, 3, D.INT_W(2), cfgs, per_bag=6)
        inputs += EL.inputs_sampled(rng, 6000, (4, 6), 8, lambda r, nc: stv_config(r, nc, list(rules) + ["STV"] if "STV" in rules else list(rules)))
    # a slice with the real pandas DataFrame in every profile (the bulk uses the light stand-in)
    for inp in rng.sample(inputs, min(len(inputs), 150 if tier == "quick" else 1500)):
        s = dict(inp)
        s["slow"] = True
        inputs.append(s)
    return inputs


def nontrivial(t):
    return len([e for e in t["events"] if e["ev"] == "Round"]) >= 2


def run(tier, seed, replay=None):
    res = Result(PID, tier, seed)
    scratch(PID)
    res.rule = ("role 1: TLC exhaustive over every profile of <=K distinct untied rankings of 3 candidates x every "
                "m/quota/mode/transfer/tiebreak configuration x every random outcome; role 2: real STV/IRV/SequentialRCV runs "
                "(all random branches enumerated by the scripted source) validated round by round by ElectionTrace. "
                "non-trivial = distinct (configuration, profile) whose run has at least two rounds (a transfer or an elimination)")
    if replay:
        inputs = [json.load(open(replay))["replay"]["input"]]
    else:
        if tier == "quick":
            EL.model_check(res, PID, "stv", ["A", "B", "C"], 2, 1, with_half=True)
        else:
            EL.model_check(res, PID, "stv", ["A", "B", "C"], 2, 2, with_half=True)
            EL.model_check(res, PID, "droop", ["A", "B", "C"], 3, 2, name="mc_droop3")
        inputs = corpus(tier, seed)
    res.evaluations = len(inputs)
    traces = EL.record_corpus(inputs)
    EL.judge(res, PID, traces, os.path.join(OUT, PID, "traces"), nontrivial=nontrivial)
    res.exhaustive = tier == "thorough"
    res.notes["inputs"] = len(inputs)
    return res
