"""C02 -- each STV / IRV / SequentialRCV round is a legal step of the documented count."""
import random
from . import elect as EL
from .. import domains as D
from ..elections import base_cfg

PID = "C02"
MC = {"quick": [dict(family="stv", max_ballots=2, max_w=1)],
      "thorough": [dict(family="stv", max_ballots=2, max_w=2, with_half=True), dict(family="droop", max_ballots=3, max_w=2),
                   dict(family="droop", cands=["A", "B", "C", "D"], max_ballots=2, max_w=1)]}


def stv_config(rng, nc, rules=("STV", "STV", "STV", "SequentialRCV", "IRV")):
    r = rng.choice(rules)
    x = "full" if r == "SequentialRCV" else ("fractional" if r == "IRV" else rng.choice(["fractional", "fractional", "random", "full"]))
    return base_cfg(rule=r, m=1 if r == "IRV" else rng.randint(1, nc), quota=rng.choice(["droop", "droop", "hare"]),
                    simul=True if r == "IRV" else rng.random() < 0.5, xfer=x, tb=rng.choice(["none", "random", "borda", "first_place"]))


def corpus(tier, seed, rules=("STV", "SequentialRCV", "IRV"), offset=1000):
    rng = random.Random(offset + seed)
    cands = ["A", "B", "C"]
    rk = D.untied_rankings(cands)
    cfgs = D.stv_configs(3, rules=rules)
    pool = [r for r in ("STV", "STV", "STV", "SequentialRCV", "IRV") if r in rules]
    if tier == "quick":
        inputs = EL.inputs_exhaustive(rng, cands, rk, 2, D.INT_W(2), cfgs, per_bag=8)
        inputs += EL.inputs_exhaustive(rng, cands, rk, 2, D.HALF_W, cfgs, per_bag=2)
        inputs += EL.inputs_sampled(rng, 500, (4, 5), 6, lambda r, nc: stv_config(r, nc, pool))
    else:
        inputs = EL.inputs_exhaustive(rng, cands, rk, 2, D.INT_W(2) + D.HALF_W, cfgs, per_bag=None)
        inputs += EL.inputs_exhaustive(rng, cands, rk, 3, D.INT_W(2), cfgs, per_bag=6)
        inputs += EL.inputs_sampled(rng, 6000, (4, 6), 8, lambda r, nc: stv_config(r, nc, pool))
    return EL.add_slow_slice(rng, inputs, 150 if tier == "quick" else 1500)


def nontrivial(t):
    return len([e for e in t["events"] if e["ev"] == "Round"]) >= 2


def run(tier, seed, replay=None):
    return EL.standard_run(
        PID, tier, seed, replay, MC, corpus, nontrivial,
        role3={"quick": [dict(family="droop", max_ballots=2, max_w=1)], "thorough": [dict(family="stv", max_ballots=2, max_w=2)]},
        repo_test_rules=("STV", "IRV", "SequentialRCV"), wide={},
        rule_text="role 1: TLC exhaustive over every profile of <=K distinct untied rankings of 3 candidates x every "
                  "m/quota/mode/transfer/tiebreak configuration x every random outcome; role 2: real STV/IRV/SequentialRCV runs "
                  "(all random branches enumerated by the scripted source) validated round by round by ElectionTrace. "
                  "non-trivial = distinct (configuration, profile) whose run has at least two rounds (a transfer or an elimination)")
