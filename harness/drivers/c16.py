"""C16 -- generated ballots follow the documented model distributions.

For every parameter point the real generator is run under the scripted random source of harness/rng.py
(+ harness/rng_gen.py for the continuous primitives): every outcome of every draw is enumerated, so the
EXACT law of the profile a voter bloc receives is known as a table of rationals.  TLC (spec/GenDistTrace.tla)
computes the probability the model of spec/GenDist.tla assigns to every outcome and compares exactly.
The MCMC samplers are checked as Markov kernels: the one-step kernel of the code is extracted state by state
and TLC decides stationarity of the Bradley-Terry table, irreducibility, and that profiles generated through
generate_profile follow the chain.  Spatial models: scripted integer positions, TLC checks the distance sort.

Environment:
  C16_EXCLUDE   comma separated model names left out of the run (default: none), e.g.
                C16_EXCLUDE=AC,slateBT_mcmc  hides the two known-defective samplers so that the rest can be
                seen to be quiet.  Model names: namePL shortPL cumulative slatePL nameBT slateBT IC AC Cambridge
                nameBT_mcmc slateBT_mcmc spatial1d spatial clustered.  Further tags: `split3` (the AC / Cambridge points
                with 3 ballots for 4 voter types), `camorder` (CambridgeSampler with interval dictionaries in slate order).
  C16_ONLY      comma separated model names / tags: run only these (development aid; the evidence then covers only them).
  C16_SKIP_MC   1: skip the bounded model checking of the specification itself (development aid for mutation runs).
  C16_MAX_PATHS overrides the per-point path budget of the explorer.
"""
import random, os, json, itertools, pickle, multiprocessing as mp
from fractions import Fraction as F
from ..common import Result, OUT, scratch, run_tlc, Machinery, tlc_error_excerpt, rat, quiet
from ..common import fork_pool
from ..calltrace import judge_calls

PID = "C16"
MC_GROUPS = [["BagLawSumsToOne"], ["CambridgeSumsToOne", "PLRestrictedToSlates", "HHTotals"],
             ["NameBTChain", "SlateBTChain", "ChainTargetsAreTheTables"],
             ["PLSumsToOne", "CumulativeSumsToOne", "CumulativeMean", "SlatePLTypeSumsToOne", "SlatePLFirstSlot", "SlatePLSumsToOne"],
             ["SlateBTTypeSumsToOne", "SlateBTSumsToOne", "OneEach", "NameBTSumsToOne", "NameBTFormsAgree", "NameBTTwo", "NameBTCombined", "ICSumsToOne", "ACSumsToOne"]]
BLANK = {"op": "", "own": "", "opp": "", "iv": [], "coh": [], "k": 0, "ntot": 0, "props": [], "tix": [1, 1], "hist": [], "labels": ["", ""],
         "law": [], "den": 1, "complete": True, "kernel": [], "seed": [], "cpos": [], "vpos": [], "metric": "", "error": "", "draws": []}
HIST = [[["W", "C"], 3], [["W", "W", "C", "C"], 1], [["W"], 1], [["C", "W"], 2], [["C", "C", "W", "W"], 1], [["C", "W", "C"], 1]]


def fr(x):
    return F(x[0], x[1])


# ----------------------------------------------------------------------------- running one parameter point on the real code
def _setup(real_df=False):
    from .. import elections as E
    from .. import rng_gen
    E.fast_df(not real_df)          # a slice of the grid runs with the real pandas display frame
    rng_gen.install()


def _kw(inp, order_own_first=False):
    from votekit.pref_interval import PreferenceInterval as PI
    kw = {"slate_to_candidates": {s: list(cs) for s, cs in inp["slates"]},
          "bloc_voter_prop": {b["name"]: float(fr(b["prop"])) for b in inp["blocs"]},
          "cohesion_parameters": {b["name"]: {s: float(fr(v)) for s, v in b["coh"]} for b in inp["blocs"]}}
    pib = {}
    for b in inp["blocs"]:
        ivs = list(b["iv"])
        if order_own_first:
            ivs.sort(key=lambda sv: sv[0] != b["name"])
        pib[b["name"]] = {s: PI({c: float(fr(w)) for c, w in ws}) for s, ws in ivs}
    kw["pref_intervals_by_bloc"] = pib
    # presentation: the key order of the parameter dictionaries is not part of the model; a seeded share of the grid writes the
    # cohesion rows / interval rows / bloc dictionaries in reversed key order
    do = inp.get("dict_order", 0)
    rev = lambda d: dict(reversed(list(d.items())))  # noqa
    if do == 1:
        kw["cohesion_parameters"] = {b: rev(r) for b, r in kw["cohesion_parameters"].items()}
    elif do == 2 and not order_own_first:
        kw["pref_intervals_by_bloc"] = {b: rev(r) for b, r in pib.items()}
    elif do == 3:
        kw["bloc_voter_prop"] = rev(kw["bloc_voter_prop"])
        kw["cohesion_parameters"] = rev(kw["cohesion_parameters"])
    return kw


def _supported(inp, b, combined):
    """candidates the voter bloc b supports: positive interval value (and, for the name models, positive cohesion for the slate)"""
    coh = {s: fr(v) for s, v in b["coh"]}
    out = set()
    for s, ws in b["iv"]:
        for c, w in ws:
            if fr(w) > 0 and (not combined or coh.get(s, F(0)) > 0):
                out.add(c)
    return out


def _ballot(bal, keep):
    """ranking -> the sequence of kept candidates; a tie between kept candidates becomes one unknown name"""
    out = []
    for g in bal.ranking:
        g = sorted(str(c) for c in g if keep is None or str(c) in keep)
        if len(g) == 1:
            out.append(g[0])
        elif g:
            out.append("=".join(g))
    return out


def _bag(pp, keep, scores=False):
    d = {}
    for bal in pp.ballots:
        if scores:
            key = json.dumps(sorted([str(c), int(v)] for c, v in (bal.scores or {}).items() if v != 0))
        else:
            key = json.dumps(_ballot(bal, keep))
        w = F(bal.weight)
        if w.denominator != 1:
            key = json.dumps(["non-integer weight"])
        d[key] = d.get(key, 0) + int(w)
    return json.dumps(sorted([json.loads(k), n] for k, n in d.items()))


def _explore(f, max_paths):
    """exact law of f() (a tuple of JSON strings, one per observed component); returns (laws per component, paths, error)"""
    from ..rng import EX, TooManyPaths, ReplayDiverged
    laws, n, err = None, 0, ""
    try:
        for r, p, log in EX.runs(f, max_paths=max_paths):
            n += 1
            if isinstance(r, str) and r.startswith("!"):
                err = r[1:]
                continue
            if laws is None:
                laws = [dict() for _ in r]
            for d, x in zip(laws, r):
                d[x] = d.get(x, 0) + p
    except TooManyPaths:
        return None, n, "TooManyPaths"
    except ReplayDiverged:
        return None, n, "TooManyPaths"       # an unmodelled random primitive: the law cannot be enumerated (counted, not decided)
    return laws, n, err


def _guard(f):
    def g():
        try:
            with quiet():
                return f()
        except Exception as ex:  # noqa
            return "!" + type(ex).__name__
    return g


def _law_json(d):
    """[[outcome, n, d], ...] plus the common denominator if it fits TLC's integers (else 0) and whether the law sums to one"""
    import math
    den = 1
    for p in d.values():
        den = den * p.denominator // math.gcd(den, p.denominator)
    law = sorted([[json.loads(k), p.numerator, p.denominator] for k, p in d.items()], key=lambda e: json.dumps(e[0]))
    return law, (den if den < 2 ** 30 else 0), sum(d.values()) == 1


def _trace(inp, b, op, **kw):
    t = dict(BLANK)
    others = [s for s, _ in inp["slates"] if s != b["name"]]
    t.update({"op": op, "own": b["name"], "opp": others[0] if others else "", "iv": b["iv"], "coh": b["coh"], "ntot": inp.get("N", 0),
              "k": inp.get("k", 0)})
    t.update(kw)
    t["_inp"] = inp
    t["_bloc"] = b["name"]
    return t


def _voter_types(inp):
    props, tix = [], {}
    for b in inp["blocs"]:
        c = dict((s, fr(v)) for s, v in b["coh"])[b["name"]]
        tix[b["name"]] = [len(props) + 1, len(props) + 2]
        props += [rat(c * fr(b["prop"])), rat((1 - c) * fr(b["prop"]))]
    return props, tix


def point_work(inp):
    """one parameter point -> list of traces (one per voter bloc)"""
    _setup(inp.get("real_df", False))
    import votekit.ballot_generator as bg
    from votekit.ballot import Ballot
    model = inp["model"]
    mp_ = int(os.environ.get("C16_MAX_PATHS") or inp.get("max_paths", 8000))
    if model in ("spatial1d", "spatial", "clustered"):
        return spatial_work(inp)
    blocs = inp["blocs"]
    N = inp["N"]
    extra = {}
    if model == "IC":
        g = bg.ImpartialCulture(candidates=[c for _, cs in inp["slates"] for c in cs])
        keep = [None]
        f = lambda: (_bag(g.generate_profile(N), None),)  # noqa
        op = "IC"
    else:
        combined = model in ("namePL", "shortPL", "cumulative", "nameBT", "nameBT_mcmc")
        keep = [_supported(inp, b, combined) for b in blocs]
        kw = _kw(inp, order_own_first=inp.get("own_first", False))
        if model == "namePL":
            g = bg.name_PlackettLuce(**kw)
            inp = dict(inp, k=sum(len(cs) for _, cs in inp["slates"]))
        elif model == "shortPL":
            g = bg.short_name_PlackettLuce(ballot_length=inp["k"], **kw)
        elif model == "cumulative":
            g = bg.name_Cumulative(num_votes=inp["k"], **kw)
        elif model == "slatePL":
            g = bg.slate_PlackettLuce(**kw)
        elif model in ("nameBT", "nameBT_mcmc"):
            g = bg.name_BradleyTerry(**kw)
        elif model in ("slateBT", "slateBT_mcmc"):
            g = bg.slate_BradleyTerry(**kw)
        elif model == "AC":
            g = bg.AlternatingCrossover(**kw)
            keep = [None for _ in blocs]
        elif model == "Cambridge":
            from ..common import stable_hash
            path = os.path.join(OUT, PID, "hist_%s_%d.p" % (stable_hash(inp["hist"]), os.getpid()))
            if not os.path.exists(path):
                os.makedirs(os.path.dirname(path), exist_ok=True)
                with open(path, "wb") as fh:
                    pickle.dump({tuple(t): n for t, n in inp["hist"]}, fh)
            g = bg.CambridgeSampler(path=path, **kw)
            keep = [None for _ in blocs]
        else:
            raise Machinery("unknown model " + model)
        op = {"shortPL": "namePL"}.get(model, model)

        def gen():
            if model == "nameBT_mcmc":
                r = g.generate_profile_MCMC(N, by_bloc=True)
            elif model == "slateBT_mcmc":
                r = g.generate_profile(N, by_bloc=True, deterministic=False)
            else:
                r = g.generate_profile(N, by_bloc=True)
            return tuple(_bag(r[0][b["name"]], keep[i], scores=(model == "cumulative")) for i, b in enumerate(blocs))
        f = gen
    if inp.get("warm"):
        # the generator object has been used before (one call with the real random source): the law of the next call is the same
        try:
            with quiet():
                f()
        except Exception:  # noqa
            pass
    laws, paths, err = _explore(_guard(f), mp_)
    out = []
    if model in ("AC", "Cambridge"):
        props, tix = _voter_types(inp)
        extra = {"props": props}
    for i, b in enumerate(blocs if model != "IC" else [{"name": "X", "coh": [["X", [1, 1]]], "iv": [["X", [[c, [1, 1]] for _, cs in inp["slates"] for c in cs]]]}]):
        t = _trace(inp, b, op, **extra)
        if model in ("AC", "Cambridge"):
            t["tix"] = tix[b["name"]]
        if model == "Cambridge":
            t["hist"] = inp["hist"]
            wb = [x["name"] for x in blocs if fr(x["prop"]) >= F(1, 2)][0]
            t["labels"] = ["W", "C"] if b["name"] == wb else ["C", "W"]
        if err or laws is None:
            t["error"] = err or "NoOutcome"
        else:
            t["law"], t["den"], t["complete"] = _law_json(laws[i])
            if any(max(e[1], e[2]) >= 2 ** 30 for e in t["law"]):
                t["law"], t["den"], t["error"] = [], 1, "TooFine"
        t["_paths"] = paths
        if model in ("nameBT_mcmc", "slateBT_mcmc") and not t["error"]:
            kern, seed, kerr, kpaths = (nbt_kernel if model == "nameBT_mcmc" else sbt_kernel)(g, inp, b, keep[i], mp_)
            t["kernel"], t["seed"] = kern, seed
            t["_paths"] += kpaths
            if kerr:
                t["error"] = kerr
        out.append(t)
    return out


def nbt_kernel(g, inp, b, keep, max_paths):
    """one-step kernel of name_BradleyTerry._BT_mcmc from every ranking of the supported candidates"""
    from votekit.ballot import Ballot
    pi = g.pref_interval_by_bloc[b["name"]]
    seed = [str(c) for c in pi.non_zero_cands]           # the seed generate_profile_MCMC builds (iteration order of the frozenset)
    rows, paths = [], 0
    for s in itertools.permutations(sorted(seed)):
        sb = Ballot(ranking=tuple(frozenset({c}) for c in s))
        laws, n, err = _explore(_guard(lambda: (_bag(g._BT_mcmc(1, pi.interval, sb, zero_cands=pi.zero_cands), keep),)), max_paths)
        paths += n
        if err or laws is None:
            return [], seed, err or "NoOutcome", paths
        row = []
        for k, p in sorted(laws[0].items()):
            bag = json.loads(k)
            row.append([bag[0][0], rat(p)])
        rows.append([list(s), row])
    return rows, seed, "", paths


def sbt_kernel(g, inp, b, keep, max_paths):
    """kernel of slate_BradleyTerry._sample_ballot_types_MCMC: the method builds its own seed, so the law of whole paths
    from that seed is enumerated and turned into conditional one-step laws (one row per history)"""
    cnt = {s: sum(1 for c, w in ws if fr(w) > 0) for s, ws in b["iv"]}
    seed = [s for s, _ in inp["slates"] for _ in range(cnt[s])]
    others = [s for s in cnt if s != b["name"]]
    L = min(cnt[b["name"]] * (cnt[others[0]] if others else 0) + 1, inp.get("maxL", 5))
    laws, n, err = _explore(_guard(lambda: (json.dumps(g._sample_ballot_types_MCMC(b["name"], L)),)), max_paths * 4)
    if err or laws is None:
        return [], seed, err or "NoOutcome", n
    pref = {}
    for k, p in laws[0].items():
        path = [tuple(x) for x in json.loads(k)]
        for i in range(len(path) + 1):
            h = tuple(path[:i])
            pref[h] = pref.get(h, 0) + p
    rows = {}
    for h, p in pref.items():
        if len(h) == L:
            continue
        s = h[-1] if h else tuple(seed)
        row = sorted([list(h2[-1]), rat(p2 / p)] for h2, p2 in pref.items() if len(h2) == len(h) + 1 and h2[:len(h)] == h)
        rows[json.dumps([list(s), row])] = 1
    return [json.loads(k) for k in sorted(rows)], seed, "", n


# ----------------------------------------------------------------------------- spatial models
def spatial_work(inp):
    _setup(inp.get("real_df", False))
    import numpy as np
    import votekit.ballot_generator as bg
    from ..rng_gen import ENV
    cands = inp["cands"]
    cpos, vpos, metric = inp["cpos"], inp["vpos"], inp["metric"]
    t = dict(BLANK)
    t.update({"op": inp["model"], "metric": metric, "_inp": inp, "_bloc": "", "_paths": 1})

    def l1(x, y):
        return float(np.sum(np.abs(np.asarray(x) - np.asarray(y))))

    try:
        with quiet():
            if inp["model"] == "spatial1d":
                g = bg.OneDimSpatial(candidates=cands)
                with ENV.script([p[0] for p in cpos] + [p[0] for p in vpos]):
                    pp = g.generate_profile(len(vpos))
                t["cpos"] = [[c, p] for c, p in zip(cands, cpos)]      # OneDimSpatial does not return the positions
                t["draws"] = sorted({json.dumps([n, int(round(lo * 1000)), int(round(sc * 1000))]) for n, lo, sc in ENV.calls})
                t["draws"] = [json.loads(x) for x in t["draws"]]
                t["vpos"] = vpos
            else:
                q = {"c": [], "v": []}

                dt = float if inp.get("float_pos", True) else int       # real distributions return float arrays

                def cd():
                    return np.array(q["c"].pop(0) if q["c"] else [0, 0], dtype=dt)

                if inp["model"] == "spatial":
                    def vd():
                        return np.array(q["v"].pop(0) if q["v"] else [0, 0], dtype=dt)
                    g = bg.Spatial(candidates=cands, voter_dist=vd, voter_dist_kwargs={}, candidate_dist=cd, candidate_dist_kwargs={},
                                   **({"distance": l1} if metric == "l1" else {}))
                    q["c"], q["v"] = [list(p) for p in cpos], [list(p) for p in vpos]
                    pp, cp, vp = g.generate_profile(len(vpos))
                else:
                    def normal(loc=0, **kw):                            # offsets around the candidate the voter belongs to
                        return np.asarray(loc) + np.array(q["v"].pop(0) if q["v"] else [0, 0], dtype=dt)
                    g = bg.ClusteredSpatial(candidates=cands, voter_dist=normal, voter_dist_kwargs={}, candidate_dist=cd, candidate_dist_kwargs={},
                                            **({"distance": l1} if metric == "l1" else {}))
                    q["c"], q["v"] = [list(p) for p in cpos], [list(p) for p in vpos]
                    pp, cp, vp = g.generate_profile_with_dict(dict(zip(cands, inp["per_cand"])))
                t["cpos"] = [[c, [int(round(float(x))) for x in cp[c]]] for c in cands]
                t["vpos"] = [[int(round(float(x))) for x in row] for row in np.asarray(vp).reshape(len(vp), -1)]
        # positions are logged relative to the translation of the input (an exact integer shift; distances do not depend on it), so that
        # the logged coordinates stay inside TLC's exact range
        off = inp.get("off") or [0] * 8
        t["cpos"] = [[c, [x - off[k] for k, x in enumerate(pos)]] for c, pos in t["cpos"]]
        t["vpos"] = [[x - (0 if inp["model"] == "clustered" else off[k]) for k, x in enumerate(pos)] for pos in t["vpos"]]
        if inp["model"] == "clustered":
            t["vpos"] = [[x - off[k] for k, x in enumerate(pos)] for pos in t["vpos"]]
        t["law"] = [[json.loads(_bag(pp, None)), 1, 1]]
    except Exception as ex:  # noqa
        t["error"] = type(ex).__name__
    return [t]


# ----------------------------------------------------------------------------- parameter grid
H, Q, T3, O, Z = [1, 2], [1, 4], [3, 4], [1, 1], [0, 1]
SUP2 = [[[4, 5], [1, 5]], [[1, 2], [1, 2]], [[1, 1], [0, 1]], [[2, 1], [1, 1]]]          # the last one is not normalised
SUP3 = [[[1, 2], [3, 10], [1, 5]], [[1, 3], [1, 3], [1, 3]], [[3, 4], [1, 4], [0, 1]]]
COH = [O, T3, H, Q, Z]


def bloc(name, prop, coh_own, slates, ivs):
    other = [s for s, _ in slates if s != name]
    rest = rat((1 - fr(coh_own)) / max(1, len(other)))
    coh = [[s, (coh_own if s == name else rest)] for s, _ in slates]
    return {"name": name, "prop": prop, "coh": coh, "iv": [[s, [[c, w] for c, w in zip(cs, ivs[s])]] for s, cs in slates]}


def degenerate(name, prop, slates, coh=O):
    """a voter bloc whose ballots are (nearly) deterministic: all support on the first candidate of each slate, cohesion 1"""
    return bloc(name, prop, coh, slates, {s: [O] + [Z] * (len(cs) - 1) for s, cs in slates})


def grid(tier, seed):
    rnd = random.Random(1600 + seed)
    q = tier == "quick"
    pts = []
    S22 = [["X", ["A", "B"]], ["Y", ["C", "D"]]]
    S21 = [["X", ["A", "B"]], ["Y", ["C"]]]
    S12 = [["X", ["A"]], ["Y", ["C", "D"]]]
    S11 = [["X", ["A"]], ["Y", ["C"]]]
    S32 = [["X", ["A", "B", "E"]], ["Y", ["C", "D"]]]
    S31 = [["X", ["A", "B", "E"]], ["Y", ["C"]]]

    def sup(n, i):
        return (SUP2 if n == 2 else SUP3 if n == 3 else [[O]])[i % (4 if n == 2 else 3 if n == 3 else 1)]

    def two(model, slates, test, coh, i, j, N, **kw):
        """bloc `test` carries the parameters under test, the other bloc is degenerate"""
        other = [s for s, _ in slates if s != test][0]
        ivs = {s: sup(len(cs), i if s == test else j) for s, cs in slates}
        pt = kw.pop("prop_test", H)
        bs = {test: bloc(test, pt, coh, slates, ivs), other: degenerate(other, rat(1 - fr(pt)), slates, kw.pop("other_coh", O))}
        pts.append(dict({"model": model, "slates": slates, "blocs": [bs[s] for s, _ in slates], "N": N}, **kw))

    def both(model, slates, coh, i, j, N, **kw):
        ivx = {s: sup(len(cs), i) for s, cs in slates}
        ivy = {s: sup(len(cs), j) for s, cs in slates}
        pts.append(dict({"model": model, "slates": slates, "blocs": [bloc("X", H, coh, slates, ivx), bloc("Y", H, T3, slates, ivy)], "N": N}, **kw))

    shapes = [S22, S21, S12, S11] + ([] if q else [S32, S31])
    for model in ("namePL", "nameBT", "slatePL", "slateBT", "cumulative", "shortPL"):
        for slates in shapes:
            for coh in COH:
                for test in ("X", "Y"):
                    for i in range(4):
                        if len(slates[0][1]) + len(slates[1][1]) <= 2 and i > 0:
                            continue
                        nc = sum(len(cs) for _, cs in slates)
                        big = nc >= 5
                        for N in ((2,) if big or (q and nc >= 4) else (2, 3)):      # 3 ballots: two for the bloc under test (shares 3/4, 1/4)
                            if q and rnd.random() < (0.6 if nc >= 4 else 0.5):
                                continue
                            kw = {"prop_test": [3, 4]} if N == 3 else {}
                            if model == "cumulative":
                                kw["k"] = rnd.choice([1, 2, 3] if not big else [2])
                                if N == 3 and kw["k"] == 3 and nc >= 4:
                                    kw["k"] = 2
                            if model == "shortPL":
                                kw["k"] = min(nc, rnd.choice([1, 2, 3]))
                            two(model, slates, test, coh, i, rnd.randrange(4), N, **kw)
        # two genuine blocs, one ballot each
        for slates in (S21, S12) + (() if q else (S22,)):
            for coh in (T3, Q):
                both(model, slates, coh, rnd.randrange(4), rnd.randrange(4), 2, **({"k": 2} if model in ("cumulative", "shortPL") else {}))
    # three slates: renormalisation after one of three is used up, and the zero-cohesion completion
    S3 = [["X", ["A", "B"]], ["Y", ["C"]], ["Z", ["D"]]]
    for model in ("slatePL", "namePL"):
        for cohrow in ([H, Q, Q], [O, Z, Z], [H, H, Z], [Z, H, H], [[3, 5], [1, 5], [1, 5]]):
            for N in (3,) if q else (3, 6):
                bs = []
                for k, (s, cs) in enumerate(S3):
                    if k == 0:
                        bs.append({"name": s, "prop": [1, 3], "coh": [[x, v] for (x, _), v in zip(S3, cohrow)],
                                   "iv": [[x, [[c, w] for c, w in zip(xs, sup(len(xs), 0))]] for x, xs in S3]})
                    else:
                        d = degenerate(s, [1, 3], S3)
                        bs.append(d)
                pts.append({"model": model, "slates": S3, "blocs": bs, "N": N})
    # four slates: two of them can be used up while two others still hold candidates (the remaining cohesion shares are renormalised each time)
    S4 = [["X", ["A", "B"]], ["Y", ["C"]], ["Z", ["D"]], ["W", ["E"]]]
    E8 = [1, 8]
    for model in ("slatePL",) if q else ("slatePL", "namePL"):
        for cohrow in ([H, Q, E8, E8], [[2, 5], [1, 5], [1, 5], [1, 5]], [Q, Q, Q, Q]) if q else ([H, Q, E8, E8], [[2, 5], [1, 5], [1, 5], [1, 5]], [Q, Q, Q, Q], [H, H, Z, Z], [E8, E8, H, Q]):
            bs = []
            for k, (s, cs) in enumerate(S4):
                if k == 0:
                    bs.append({"name": s, "prop": O, "coh": [[x, v] for (x, _), v in zip(S4, cohrow)],
                               "iv": [[x, [[c, w] for c, w in zip(xs, sup(len(xs), 0))]] for x, xs in S4]})
                else:
                    bs.append(degenerate(s, Z, S4))
            for N in (1, 2):
                pts.append({"model": model, "slates": S4, "blocs": bs, "N": N, "max_paths": 60000})
    # one bloc / one slate
    S1 = [["X", ["A", "B", "E"]]]
    for model in ("namePL", "nameBT", "cumulative", "slatePL", "slateBT", "nameBT_mcmc"):
        for i in range(3):
            for N in (1, 2):
                if q and rnd.random() < 0.5:
                    continue
                pts.append({"model": model, "slates": S1, "N": N, "k": 2,
                            "blocs": [{"name": "X", "prop": O, "coh": [["X", O]], "iv": [["X", [[c, w] for c, w in zip(S1[0][1], SUP3[i])]]]}]})
    # impartial culture
    for cands, Ns in ((["A", "B", "C"], (1, 2, 3)), (["A", "B"], (1, 3)), (["A", "B", "C", "D"], (1,) if q else (1, 2))):
        for N in Ns:
            pts.append({"model": "IC", "slates": [["X", cands]], "blocs": [], "N": N})
    # AlternatingCrossover (equal slate sizes): 8 ballots = 4 per bloc (cohesion 1: 4 bloc-first ballots, the second-ballot law),
    # 4 ballots, and 3 ballots (fewer ballots than voter types)
    for slates in (S22, S11):
        for coh in (O, T3, H, Q):
            for i in range(4 if slates is S22 else 1):
                for test in ("X", "Y"):
                    for N in (4, 8):
                        if q and N == 8 and coh != O and rnd.random() < 0.5:
                            continue
                        two("AC", slates, test, coh, i, i, N)      # the same number of supported candidates in both slates
    for coh in (O, T3):
        two("AC", S22, "X", coh, 0, 0, 3, tag="split3")
        two("Cambridge", S21, "X", coh, 0, 2, 3, hist=HIST, tag="split3", own_first=True)
    both("AC", S22, T3, 0, 1, 4)
    # CambridgeSampler: scripted historical file; interval dictionaries given own-slate-first (the order the code assumes) ...
    for slates in ((S21, S11) if q else (S21, S12, S11, S22)):
        for coh in ((O, T3, Q) if q else (O, T3, H, Q)):
            for test in ("X", "Y"):
                for i in range(1 if q else 4):
                    if len(slates[0][1]) + len(slates[1][1]) <= 2 and i > 0:
                        continue
                    if slates is S22 and (i > 1 or coh in (O, H)):
                        continue
                    two("Cambridge", slates, test, coh, i, 2, 4, hist=HIST, own_first=True)
    # ... and in slate order for both blocs
    for coh in (O, T3, Q):
        two("Cambridge", S21, "Y", coh, 0, 2, 4, hist=HIST, own_first=False, tag="camorder")
    # MCMC samplers
    for slates in [S22, S21, S12, S11] + ([] if q else [S31]):
        for coh in COH:
            for test in ("X", "Y"):
                for N in (2, 4):
                    if q and N == 4 and rnd.random() < 0.6:
                        continue
                    two("slateBT_mcmc", slates, test, coh, rnd.randrange(4), 2, N)
                if coh != Z or test == "X":
                    two("nameBT_mcmc", slates, test, coh, rnd.randrange(4), 2, rnd.choice([2, 4]), other_coh=H)
    for i in range(3):
        two("nameBT_mcmc", S32 if not q else S31, "X", T3, i, 2, 2, other_coh=H)
    # spatial models: integer grid positions, ties included
    for _ in range(240 if q else 4000):
        model = rnd.choice(["spatial1d", "spatial", "clustered"])
        nc = rnd.randint(2, 4)
        cands = ["A", "B", "C", "D"][:nc]
        dim = 1 if model == "spatial1d" else 2
        span = rnd.choice([2, 3, 6])
        # the whole configuration translated far from the origin (map-like coordinates): distances, hence rankings, do not change
        off = [rnd.choice([0, 0, 1000, -10**6, 10**8, 10**9, -2 * 10**9]) for _ in range(dim)]
        cpos = [[rnd.randint(-span, span) + off[k] for k in range(dim)] for _ in cands]
        p = {"model": model, "cands": cands, "cpos": cpos, "off": off, "metric": "l2" if model == "spatial1d" else rnd.choice(["l2", "l1"])}
        if model == "clustered":
            per = [rnd.randint(0, 2) for _ in cands]
            while sum(per) == 0 or sum(per) > 4:
                per = [rnd.randint(0, 2) for _ in cands]
            p["per_cand"] = per
            nv = sum(per)
        else:
            nv = rnd.randint(1, 4)
        p["vpos"] = [[rnd.randint(-span, span) + (0 if model == "clustered" else off[k]) for k in range(dim)] for _ in range(nv)]
        p["float_pos"] = rnd.random() < 0.8
        pts.append(p)
    if not q:
        for p in pts:
            p.setdefault("max_paths", 60000)
    excl = set(x for x in (os.environ.get("C16_EXCLUDE") or "").split(",") if x)
    pts = [p for p in pts if p["model"] not in excl and p.get("tag", "") not in excl]
    for p in pts:
        if rnd.random() < 0.04:
            p["real_df"] = True
    only = set(x for x in (os.environ.get("C16_ONLY") or "").split(",") if x)
    if only:
        pts = [p for p in pts if p["model"] in only or p.get("tag", "") in only]
    # name-BT MCMC with a single supported candidate has nothing to swap (IndexError in the code: a C14 matter, not a distribution)
    pts = [p for p in pts if p["model"] != "nameBT_mcmc" or all(len(_supported(p, b, True)) >= 2 for b in p["blocs"])]
    rd = random.Random(1661 + seed)
    for pt in pts:
        if "mcmc" not in pt.get("model", "") and pt.get("model") not in ("spatial1d", "spatial", "clustered") and rd.random() < 0.3:
            pt["warm"] = True
        if pt.get("model") != "Cambridge" and "dict_order" not in pt and rd.random() < 0.4:
            # the MCMC kernels are extracted from the chain's fixed seed state, which follows the order of the bloc dictionary
            # (a logged assumption of the harness): those points keep the bloc order and only permute the inner dictionaries
            pt["dict_order"] = rd.choice([1, 2] if "mcmc" in pt.get("model", "") else [1, 2, 3])
    return pts


def spatial_hairs(res, tier, seed):
    """voters a few billionths of a unit apart on either side of the bisector of two candidates (and exactly repeated voters): each ballot
    lists the candidates by non-decreasing distance from the voter's *own* position.  Distances read in exact fractions of the float
    coordinates the generator returns (python_compared): 1e-9 of a unit is beyond TLC's integers once squared."""
    import numpy as np
    from ..common import load_votekit
    load_votekit()
    import votekit.ballot_generator as bg
    from .. import elections as E
    E.fast_df(True)
    rng = random.Random(1688 + seed)
    n = 0
    for _ in range(60 if tier == "quick" else 1200):
        nc = rng.randint(2, 4)
        cands = ["A", "B", "C", "D"][:nc]
        cpos = [[float(rng.randint(-3, 3)), float(rng.randint(-3, 3))] for _ in cands]
        if len({tuple(p) for p in cpos}) < nc:
            continue
        a, b = rng.sample(range(nc), 2)
        mid = [(cpos[a][0] + cpos[b][0]) / 2, (cpos[a][1] + cpos[b][1]) / 2]
        d = [cpos[b][0] - cpos[a][0], cpos[b][1] - cpos[a][1]]
        h = rng.choice([2e-9, 4e-9, 1e-10])
        vpos = [[mid[0] - h * d[0], mid[1] - h * d[1]], [mid[0] + h * d[0], mid[1] + h * d[1]], list(mid), [mid[0] - h * d[0], mid[1] - h * d[1]]]
        rng.shuffle(vpos)
        q = {"c": [], "v": []}
        g = bg.Spatial(candidates=cands, voter_dist=lambda: np.array(q["v"].pop(0) if q["v"] else [0.0, 0.0]), voter_dist_kwargs={},
                       candidate_dist=lambda: np.array(q["c"].pop(0) if q["c"] else [0.0, 0.0]), candidate_dist_kwargs={})
        q["c"], q["v"] = [list(p) for p in cpos], [list(p) for p in vpos]      # (the constructor draws once from each distribution to validate it)
        n += 1
        try:
            with quiet():
                pp, cp, vp = g.generate_profile(len(vpos))
        except Exception as ex:  # noqa
            res.violation("Spatial:Hairs(py):Error", type(ex).__name__, {"cpos": cpos, "vpos": vpos})
            continue
        vp = np.asarray(vp).reshape(len(vpos), -1)
        # the profile is condensed: compare the multiset of ballots with the multiset of legal rankings per voter
        want = {}
        ok = True

        def d2(v, c):
            return sum((F(float(x)) - F(float(y))) ** 2 for x, y in zip(v, cp[c]))
        legal = []
        for v in vp:
            ds = {c: d2(v, c) for c in cands}
            legal.append(ds)
        got = []
        for bal in pp.ballots:
            got += [[next(iter(s)) for s in bal.ranking]] * int(bal.weight)
        # every generated ballot must be sorted for some voter, with a perfect matching between ballots and voters (4 voters: try all)
        import itertools as _it
        def sorted_for(r, ds):
            return all(ds[r[i]] <= ds[r[i + 1]] for i in range(len(r) - 1))
        ok = len(got) == len(legal) and any(all(sorted_for(got[i], legal[p[i]]) for i in range(len(got))) for p in _it.permutations(range(len(legal))))
        if not ok:
            res.violation("Spatial:Hairs(py):Order", "voters %s of a unit from a bisector: some ballot is not ordered by distance from its voter's own position" % h,
                          {"cpos": cpos, "vpos": vpos, "ballots": got})
    res.notes["python_compared"] = res.notes.get("python_compared", 0) + n


def binding_selftest(res, verdicts, byid):
    """the specification is bound to what the code logged: exchange the probabilities of two outcomes of an accepted trace
    (the sum stays one) / move one kernel entry -> the trace must be rejected"""
    from .. import etrace
    import copy
    picked = {}
    for tid in sorted(verdicts):
        v, t = verdicts[tid], byid[tid]
        if v["final"]["clause"] or v["rejects"]:
            continue
        ps = sorted(set((e[1], e[2]) for e in t["law"]))
        if len(ps) >= 2 and t["op"] not in picked:
            c = copy.deepcopy({k: x for k, x in t.items() if not k.startswith("_")})
            i = next(k for k, e in enumerate(c["law"]) if (e[1], e[2]) == ps[0])
            j = next(k for k, e in enumerate(c["law"]) if (e[1], e[2]) == ps[-1])
            c["law"][i][1:], c["law"][j][1:] = c["law"][j][1:], c["law"][i][1:]
            picked[t["op"]] = c
        if t["kernel"] and t["op"] + "/kernel" not in picked:
            for r in t["kernel"]:
                if len(r[1]) >= 2 and r[1][0][1] != r[1][1][1]:
                    c = copy.deepcopy({k: x for k, x in t.items() if not k.startswith("_")})
                    rr = next(x for x in c["kernel"] if x[0] == r[0])
                    rr[1][0][1], rr[1][1][1] = rr[1][1][1], rr[1][0][1]
                    picked[t["op"] + "/kernel"] = c
                    break
    for tid in sorted(verdicts):          # spatial: reverse the ballots of a profile whose voters see all candidates at different distances
        v, t = verdicts[tid], byid[tid]
        if t["op"] in ("spatial", "spatial1d", "clustered") and not v["final"]["clause"] and t["op"] not in picked and len(t["cpos"]) >= 2:
            def dist(a, b):
                return sum(abs(x - y) for x, y in zip(a, b)) if t["metric"] == "l1" else sum((x - y) ** 2 for x, y in zip(a, b))
            if all(len(set(dist(vp, cp) for _, cp in t["cpos"])) == len(t["cpos"]) for vp in t["vpos"]):
                c = copy.deepcopy({k: x for k, x in t.items() if not k.startswith("_")})
                for e in c["law"][0][0]:
                    e[0] = e[0][::-1]
                if sorted(map(json.dumps, c["law"][0][0])) != sorted(map(json.dumps, t["law"][0][0])):     # (a symmetric bag is its own mirror image)
                    picked[t["op"]] = c
    if not picked:
        return
    names = sorted(picked)
    vs, stats, _ = etrace.validate([picked[n] for n in names], os.path.join(OUT, PID, "binding"), monitors=[], module="GenDistTrace")
    missed = [n for k, n in enumerate(names) if not vs[k + 1]["final"]["clause"]]
    res.notes["binding_selftest"] = {"corrupted": len(names), "rejected": len(names) - len(missed),
                                     "clauses": {n: vs[k + 1]["final"]["clause"] for k, n in enumerate(names)}}
    if missed:
        raise Machinery("binding self-test: a corrupted probability was accepted for " + ", ".join(missed))


def sig_of(t, rec):
    cl = rec["clause"]
    if rec.get("kind") == "info":
        return None
    if t["_inp"].get("tag") == "split3" and cl in ("AC:Split", "Cambridge:Split", "Cambridge:TypeLaw"):
        return "%s:Split(fewer ballots than voter types)" % t["op"]
    if t["_inp"].get("tag") == "camorder":
        return "Cambridge:CohesionByDictOrder"
    if cl.startswith("Error:"):
        return "%s:%s" % (t["op"], cl)
    return cl


def run(tier, seed, replay=None):
    res = Result(PID, tier, seed)
    rp = json.load(open(replay))["replay"]["input"] if replay else None      # (the replay file may live in the scratch directory)
    scratch(PID)
    res.rule = ("role 1: MC_GenDist -- for every integer support 0..MaxS of up to 2+2 candidates and every cohesion in {0,1/4,1/2,3/4,1} (parameters built by "
                "actions) each specified law sums to one, Plackett-Luce restricted to the slates is Plackett-Luce per slate (independently), the Metropolis "
                "kernels of both MCMC samplers satisfy detailed balance w.r.t. the Bradley-Terry tables and are irreducible, Huntington-Hill totals; "
                "role 2: a grid of parameter points per model (1-2 blocs, 1-3 candidates per slate, supports (4/5,1/5) (1/2,1/2) (1,0) (2:1 unnormalised) "
                "(1/2,3/10,1/5) (1/3,1/3,1/3) (3/4,1/4,0), cohesion 1,3/4,1/2,1/4,0, 1-4 ballots per bloc): the exact law of the real generator's output "
                "(every outcome of every random draw enumerated) is compared by TLC with the specified law, outcome by outcome; MCMC samplers as "
                "exact one-step kernels (stationarity + irreducibility decided by TLC); spatial models on scripted integer positions. "
                "non-trivial = distinct parameter points whose law has an outcome of probability strictly between 0 and 1 (spatial: at least two "
                "candidates at different distances from some voter)")
    res.assumptions += ["numpy.random.choice(replace=False, p) is successive sampling without replacement (the scripted source models it so)",
                        "a Dirichlet(1e20) point is replaced by its mean (total variation below N^2 n!/1e20); other continuous draws are environment choices",
                        "float parameters are the doubles nearest to the exact small rationals of the grid; probabilities handed to a primitive draw are "
                        "read back with Fraction.limit_denominator(10**6) (rng.py), comparison thresholds with limit_denominator(10**9)"]
    maxs = 2 if tier == "quick" else 4
    mc_out = []

    def mc():
        def one(k):
            cfg = ("CONSTANTS\n MaxS = %d\nSPECIFICATION Spec\n" % maxs + "".join("INVARIANT %s\n" % i for i in MC_GROUPS[k]) + "CHECK_DEADLOCK FALSE\n")
            return k, run_tlc("MC_GenDist", cfg, os.path.join(OUT, PID, "mc%d" % k), workers=3 if tier == "quick" else 8, heap="2g")
        from concurrent.futures import ThreadPoolExecutor
        with ThreadPoolExecutor(max_workers=len(MC_GROUPS)) as ex:
            mc_out.extend(ex.map(one, range(len(MC_GROUPS))))

    if replay:
        pts = [rp]
    else:
        if not os.environ.get("C16_SKIP_MC"):
            mc()
        for k, r in sorted(mc_out):
            res.add_tlc("MC_GenDist MaxS=%d %s" % (maxs, ",".join(MC_GROUPS[k])), r)
            if r["hard"]:
                raise Machinery("TLC failed on MC_GenDist: " + tlc_error_excerpt(r["out"]))
            if r["violated"]:
                res.violation("spec:MC_GenDist:%s" % r["violated"], "the specified laws violate %s" % r["violated"], {})
        pts = grid(tier, seed)
    res.evaluations = len(pts)
    with fork_pool(16) as pool:
        traces = [t for ts in pool.imap_unordered(point_work, pts, chunksize=1) for t in ts]
    traces.sort(key=lambda t: json.dumps({k: v for k, v in t.items() if not k.startswith("_")}, sort_keys=True))
    # cases the explorer could not enumerate completely are not decided
    toomany = [t for t in traces if t["error"] in ("TooManyPaths", "TooFine")]
    traces = [t for t in traces if t["error"] not in ("TooManyPaths", "TooFine")]
    paths = sum(t.get("_paths", 0) for t in traces)
    per_model = {}
    for t in traces:
        m = t["_inp"]["model"]
        d = per_model.setdefault(m, {"traces": 0, "paths": 0, "outcomes": 0})
        d["traces"] += 1
        d["paths"] += t.get("_paths", 0)
        d["outcomes"] += len(t["law"]) + sum(len(r[1]) for r in t["kernel"])
        if any(0 < e[1] < e[2] for e in t["law"]) or any(0 < F(*x[1]) < 1 for r in t["kernel"] for x in r[1]) or \
                (t["op"].startswith("spatial") or t["op"] == "clustered") and len(t["cpos"]) >= 2:
            res.nontrivial.add(json.dumps({k: v for k, v in t["_inp"].items()}, sort_keys=True) + t["_bloc"])
    verdicts, byid = judge_calls(res, PID, "GenDistTrace", traces, what="the generator's exact law disagrees with the model", sig_of=sig_of,
                                 inexact_is_violation=False)
    if not replay:
        binding_selftest(res, verdicts, byid)
        spatial_hairs(res, tier, seed)
    info = {}
    for tid, v in verdicts.items():
        for m in v["monitors"]:
            info[m["clause"]] = info.get(m["clause"], 0) + 1
    res.notes["points"] = len(pts)
    res.notes["explorer_paths"] = paths
    res.notes["per_model"] = per_model
    res.notes["not_enumerable_points"] = len(toomany)
    res.notes["not_enumerable_models"] = sorted(set(t["_inp"]["model"] for t in toomany))
    res.notes["kernel_differs_from_metropolis_but_stationary(info)"] = info
    res.notes["excluded_models"] = os.environ.get("C16_EXCLUDE") or ""
    res.notes["only_models"] = os.environ.get("C16_ONLY") or ""
    res.notes["mc_skipped"] = bool(os.environ.get("C16_SKIP_MC"))
    return res
