"""Shared pipeline of the election-family checks (C01, C02, C03, C07, C10, C13, C04, C06, C17 reuse it).

  role 1  TLC model-checks Election on a bounded input space (MC_Election, one run per rule family)
  role 2  the real code is run on a corpus (every random outcome explored through the scripted source
          where feasible), projected, and validated round by round by ElectionTrace under TLC
Verdict clauses written by the spec are mapped to the property whose statement they decide.
"""
import os, json, random, itertools, multiprocessing as mp, time
from fractions import Fraction as F
from ..common import (Result, run_tlc, scratch, Machinery, tlc_error_excerpt, coverage_counts, finish, OUT, rats_in, RAT_BOUND, rat,
                      in_arith_range, fork_pool)
from .. import domains as D
from .. import etrace

STV_RULES = ("STV", "IRV", "SequentialRCV")
RANKING_ALL = ("STV", "IRV", "SequentialRCV", "Plurality", "SNTV", "Borda", "TopTwo", "Alaska", "DominatingSets", "CondoBorda", "RandomDictator",
               "BoostedRandomDictator", "PluralityVeto")

# ----------------------------------------------------------------------------- role 1
MC_INVARIANTS = ["MTypeOK", "MPartition", "MBounded", "MErrorDiscipline", "MConservation", "MTiebreaks", "MDPC",
                 "MExactlySeats", "MNoOverElectionDroop"]
MC_PROPS = ["MProgress", "MMonotone", "MThresholdFixed", "Termination"]


def mc_cfg(family, cands, max_ballots, max_w, with_half=False, invariants=MC_INVARIANTS, props=MC_PROPS):
    cs = ", ".join('"%s"' % c for c in cands)
    return ("CONSTANTS\n  Cand = {%s}\n  MaxBallots = %d\n  MaxW = %d\n  Family = \"%s\"\n  WithHalf = %s\n"
            "SPECIFICATION MSpec\n" % (cs, max_ballots, max_w, family, "TRUE" if with_half else "FALSE")
            + "".join("INVARIANT %s\n" % i for i in invariants) + "".join("PROPERTY %s\n" % p for p in props)
            + "CHECK_DEADLOCK FALSE\n")


def model_check(res, pid, family, cands, max_ballots, max_w, with_half=False, invariants=MC_INVARIANTS, props=MC_PROPS,
                name=None, coverage=True, emit=None, simulate=None):
    name = name or "mc_%s" % family
    wd = os.path.join(OUT, pid, name)
    os.makedirs(wd, exist_ok=True)
    env = {"EMIT_FILE": emit} if emit else {}
    inv = list(invariants) + (["Emit"] if emit else [])
    if simulate:      # random walks through a model too large to enumerate (`tlc -simulate`): invariants only, no liveness
        r = run_tlc("MC_Election", mc_cfg(family, cands, max_ballots, max_w, with_half, inv, []), wd, env=env, coverage=False,
                    simulate=simulate, workers=8, timeout=3600)
    else:
        r = run_tlc("MC_Election", mc_cfg(family, cands, max_ballots, max_w, with_half, inv, props), wd, env=env, coverage=coverage)
    res.add_tlc("%s%s %dc/<=%db/w<=%d%s" % ("simulate " if simulate else "", family, len(cands), max_ballots, max_w, "+halves" if with_half else ""), r)
    if r["hard"]:
        raise Machinery("TLC failed in %s: %s" % (name, tlc_error_excerpt(r["out"])))
    if r["violated"]:
        # the *design* breaks the property inside the bound: a spec-level counter-example
        res.violation("spec:%s:%s" % (family, ",".join(r["violated"])),
                      "TLC found the specification itself violates %s in family %s" % (r["violated"], family),
                      {"tlc_out": os.path.join(wd, "MC_Election.tlc.out")})
    if coverage:
        cov = coverage_counts(r["out"])
        res.notes.setdefault("action_coverage", {})[name] = {k: v[1] for k, v in cov.items() if k[0].isupper()}
    return r


# ----------------------------------------------------------------------------- role 2: corpus
def _work(inp):
    from .. import elections as E
    E.fast_df(not inp.get("slow"))
    try:
        traces, info = E.record(inp["cfg"], inp["cands"], inp["ballots"], mode=inp.get("mode", "explore"),
                                max_paths=inp.get("max_paths", 300), names=inp.get("names"), cand_order=inp.get("cand_order"),
                                seed=inp.get("seed", 0), omit_defaults=inp.get("omit_defaults", False))
    except BaseException as ex:  # machinery problem inside the recorder (BaseException: a dying worker would hang the pool)
        return [{"_machinery": "%s: %s" % (type(ex).__name__, ex), "_inp": inp}]
    for t in traces:
        t["_inp"] = inp
        t["_info"] = info
    return traces


def record_corpus(inputs, procs=16):
    if not inputs:
        return []
    ctx = mp.get_context("fork")
    out = []
    with fork_pool(procs) as pool:
        for traces in pool.imap_unordered(_work, inputs, chunksize=max(1, min(64, len(inputs) // (procs * 4) or 1))):
            for t in traces:
                if "_machinery" in t:
                    raise Machinery("recorder failed on %s: %s" % (json.dumps(t["_inp"])[:300], t["_machinery"]))
            out.extend(traces)
    out.sort(key=lambda t: json.dumps({k: v for k, v in t.items() if not k.startswith("_")}, sort_keys=True))
    return out


def pick_configs(rng, configs, k):
    if k is None or k >= len(configs):
        return list(configs)
    return rng.sample(configs, k)


def inputs_exhaustive(rng, cands, rankings, max_ballots, weights, configs, per_bag=None, need_int=lambda c: c["xfer"] == "random"):
    out = []
    for bag in D.bags(rankings, max_ballots, weights):
        cfgs = [c for c in configs if not (need_int(c) and not D.is_integer_bag(bag))]
        for c in pick_configs(rng, cfgs, per_bag):
            out.append({"cfg": c, "cands": list(cands), "ballots": bag, "mode": "explore", "omit_defaults": rng.random() < 0.3})
    return out


def inputs_sampled(rng, n, cand_range, max_ballots, config_fn, tied=False, rational=0.3, wmax=4, max_paths=60):
    out = []
    for i in range(n):
        nc = rng.randint(*cand_range)
        cands = D.ABC[:nc]
        c = config_fn(rng, nc)
        need_int = c["xfer"] == "random" or c["rule"] == "PluralityVeto"
        bag = D.random_bag(rng, cands, max_ballots, tied=tied, rational=0 if need_int else rational, wmax=wmax)
        out.append({"cfg": c, "cands": cands, "ballots": bag, "mode": "explore", "max_paths": max_paths, "seed": rng.randrange(10**6),
                    "omit_defaults": rng.random() < 0.3})
    return out


# ----------------------------------------------------------------------------- verdict -> property
STEP_CLAUSES = {"NoRoundEnabled", "Who", "Tiebreak", "Bag", "Scores", "Remaining", "Label", "Threshold", "RoundNumber"}
C01_CLAUSES = {"Partition", "ExactlySeats", "BoundedRounds", "Truncated", "OverElected", "NonTermination", "NoRoundEnabled", "RoundNumber"}


def family_property(rule):
    if rule in STV_RULES:
        return {"C02"} | ({"C13"} if rule != "STV" else set())
    if rule in ("SNTV", "TopTwo", "Alaska"):
        return {"C13"} | ({"C04"} if rule == "SNTV" else set())
    if rule in ("Plurality", "Borda"):
        return {"C04"}
    if rule in ("DominatingSets", "CondoBorda"):
        return {"C06"}
    if rule in ("RandomDictator", "BoostedRandomDictator"):
        return {"C17"}
    return set()


def clause_property(rule, clause, flags=()):
    """the set of properties a verdict clause on a trace of `rule` speaks to"""
    ps = set()
    if clause.startswith("Error:") or clause.startswith("RoundAfter:") or clause in C01_CLAUSES:
        ps.add("C01")
    if (clause.startswith("Error:") or clause in ("NonTermination", "Truncated")) and not flags:
        # an exception / a missing round where the specification takes a step, in a state no recorded finding covers: the documented
        # step did not happen, which is also a violation of the property that fixes that step
        ps |= family_property(rule)
    if clause == "Error:ValueError":
        ps.add("C10")           # a ValueError where the spec sees no unbroken boundary tie
    if clause in STEP_CLAUSES or clause in ("Round0", "Threshold0"):
        if rule in STV_RULES:
            ps.add("C02")
        if rule in ("IRV", "SNTV", "SequentialRCV", "TopTwo", "Alaska"):
            ps.add("C13")
        if rule in ("Plurality", "SNTV", "Borda"):
            ps.add("C04")
        if rule in ("DominatingSets", "CondoBorda"):
            ps.add("C06")
        if rule in ("RandomDictator", "BoostedRandomDictator"):
            ps.add("C17")
        if rule == "PluralityVeto":
            ps.add("C01")
    if clause in ("Bag", "Conservation") and rule in STV_RULES + ("Alaska",):
        ps.add("C03")
    if clause in ("Tiebreak", "TiebreaksWellFormed"):
        ps.add("C10")
    if clause == "Label":
        ps.add("C17")
        if rule not in ("RandomDictator", "BoostedRandomDictator", "PluralityVeto"):
            # outside the intentionally random rules (and the random transfer, see judge) the only draw is the fallback of a tiebreak: a wrong
            # label there means the tie was not resolved "by that score of the profile, at random only among candidates still tied on it"
            ps.add("C10")
        if rule in STV_RULES and True:
            ps.add("C03")       # the label of a random transfer is its hypergeometric probability
    if clause == "DPC":
        ps.add("C07")
    return ps


def exact_expected(t):
    """inputs are small exact rationals; without a fractional transfer every correct tally stays small and exact"""
    c = t["cfg"]
    return not (c["rule"] in STV_RULES + ("Alaska",) and c["xfer"] == "fractional")


FLAG_PRIORITY = ["thr0", "overelect", "shortpile", "dictator_exhausted", "boosted_last", "veto_below", "tiered_noballots",
                 "alaska_replay", "noballots"]
# clauses that are *consequences* of having entered a state the implementation mishandles (any exception class,
# extra rounds, non-termination ...): under a recorded-finding predicate they are one finding
CONSEQUENCE = {"NonTermination", "BoundedRounds", "NoRoundEnabled", "Truncated", "OverElected", "ExactlySeats"}


_LIVE = []


def live_flags(rule, flags):
    """the recorded-finding predicates that are still *recorded* (known_findings.json, not its `fixed` list) for this rule: a predicate
    whose defect has been repaired no longer excuses anything"""
    if not _LIVE:
        from ..common import known_findings
        _LIVE.append({f["sig"] for f in known_findings().get("findings", [])})
    return [f for f in flags if "%s:KF:%s" % (rule, "veto_below" if f == "veto_under" else f) in _LIVE[0]]


def signature(trace, clause, flags):
    """rule : KF : the first recorded-finding predicate (fixed priority) true in the state before the failing step, when the
    clause is a consequence clause; otherwise rule : clause : predicate-or-'-' (content clauses are never folded)."""
    flags = {"veto_below" if f == "veto_under" else f for f in flags}
    prim = next((f for f in FLAG_PRIORITY if f in flags), "-")
    conseq = clause.startswith("Error:") or clause.startswith("RoundAfter:") or clause in CONSEQUENCE or (prim == "veto_below" and clause == "Who")
    if prim != "-" and conseq:
        return "%s:KF:%s" % (trace["cfg"]["rule"], prim)
    return "%s:%s:%s" % (trace["cfg"]["rule"], clause, prim)


def judge(res, pid, traces, workdir, monitors=etrace.ALL_MONITORS, nontrivial=None):
    """validate traces with TLC and turn verdict clauses that speak to `pid` into violations"""
    verdicts, stats, byid = etrace.validate(traces, workdir, monitors=monitors, exact_expected=exact_expected)
    inexact_list = stats.pop("inexact")
    for t in inexact_list:
        res.traces += 1
        if pid in clause_property(t["cfg"]["rule"], "Scores"):
            big = [x for x in rats_in({a: b for a, b in t.items() if not a.startswith("_")}) if abs(x[0]) > RAT_BOUND or x[1] > RAT_BOUND][:2]
            res.violation("%s:Inexact:-" % t["cfg"]["rule"], "a recorded tally is not the exact rational the small exact inputs imply "
                          "(e.g. %s): not exact rational arithmetic" % big, {"input": t["_inp"], "trace": {k: x for k, x in t.items() if not k.startswith("_")}})
    res.states += stats["distinct"]
    res.transitions += stats["states"]
    res.tlc_runs.append({"run": "trace validation (ElectionTrace, %d processes)" % stats["runs"], "states_generated": stats["states"],
                         "distinct_states": stats["distinct"], "wall_s": round(stats["wall"], 1), "violated": []})
    res.skipped_arith += stats["skipped_arith"]
    res.traces += len(byid)
    clause_counts = {}
    for tid, v in verdicts.items():
        t = byid[tid]
        if nontrivial and nontrivial(t):
            res.nontrivial.add(json.dumps({"cfg": t["cfg"], "prof0": t["prof0"]}, sort_keys=True))
        for rec in v["rejects"] + ([v["final"]] if v["final"]["clause"] else []) + v["monitors"]:
            clause = rec["clause"]
            clause_counts[clause] = clause_counts.get(clause, 0) + 1
            live = live_flags(t["cfg"]["rule"], rec.get("flags", []))
            if pid == "C10" and clause == "Error:ValueError" and live:
                continue        # an exception in a state covered by a recorded C01 finding is not a tie-discipline matter
            if pid == "C10" and clause == "Label" and t["cfg"]["xfer"] == "random":
                continue        # the label of a random surplus transfer is C03's / C17's matter
            if pid in clause_property(t["cfg"]["rule"], clause, live):
                sig = signature(t, clause, rec.get("flags", []))
                if t["_inp"].get("mixed") and clause.startswith("Error:") and not live:
                    sig = "%s:MixedBallot:%s" % (t["cfg"]["rule"], clause)     # an exception on ranked ballots that also carry scores
                res.violation(sig, "trace of %s rejected at event %d: clause %s (spec status %s, flags %s)" % (
                    t["cfg"]["rule"], rec["l"], clause, rec["status"], rec.get("flags", [])),
                    {"input": t["_inp"], "trace": {k: x for k, x in t.items() if not k.startswith("_")}, "verdict": rec})
    res.notes.setdefault("verdict_clauses_seen", {}).update(clause_counts)
    # traces TLC had to skip because a logged number leaves its exact range (chained fractional surpluses do that on small inputs too):
    # the STV-family ones are read by the exact-fraction transcription instead of being dropped (python_compared)
    from .. import stv_mirror as M
    inex = {id(t) for t in inexact_list}
    nsk = 0
    for t in traces:
        if t.get("id") in byid or id(t) in inex or t["cfg"]["rule"] not in STV_RULES or t["cfg"]["xfer"] == "random" or not t.get("has_round0"):
            continue
        nsk += 1
        for clause, i in M.check_trace(t):
            if clause != "KF" and pid in clause_property(t["cfg"]["rule"], clause):
                res.violation("%s:Wide(py):%s" % (t["cfg"]["rule"], clause), "count of %s outside TLC's exact range: event %d violates clause %s of the "
                              "exact-fraction reading of Election.tla" % (t["cfg"]["rule"], i, clause),
                              {"input": t["_inp"], "trace": {k: x for k, x in t.items() if not k.startswith("_")}})
    if nsk:
        res.notes["skipped_traces_read_by_transcription"] = res.notes.get("skipped_traces_read_by_transcription", 0) + nsk
        res.notes["python_compared"] = res.notes.get("python_compared", 0) + nsk
    acc = [byid[tid] for tid, v in verdicts.items() if not etrace.problems(v)]
    for t in acc[:2]:
        res.sample({"cfg": t["cfg"], "prof0": t["prof0"], "events": t["events"][:3], "verdict": "accepted"})
    return verdicts, byid


# ----------------------------------------------------------------------------- rule families
def family_configs(family, nc):
    from ..elections import base_cfg
    tbs = ("none", "random", "borda", "first_place")
    out = []
    if family == "stv":
        return D.stv_configs(nc)
    if family == "droop":
        return D.stv_configs(nc, quotas=("droop",), rules=("STV", "IRV"), xfers=("fractional", "random"))
    if family == "oneshot":
        for r in ("Plurality", "SNTV"):
            for m in range(1, nc + 1):
                for tb in tbs:
                    out.append(base_cfg(rule=r, m=m, tb=tb))
        vecs = [[], [[1, 1]], [[2, 1], [1, 1], [1, 1], [0, 1]], [[3, 2], [1, 2]], [[5, 1], [3, 1], [1, 1], [0, 1], [0, 1]]]
        for m in range(1, nc + 1):
            for tb in tbs:
                for v in vecs:
                    out.append(base_cfg(rule="Borda", m=m, tb=tb, vec=v if v else [[nc - i, 1] for i in range(nc)]))
    elif family == "composite":
        for tb in tbs:
            out.append(base_cfg(rule="TopTwo", tb=tb))
        for m1 in range(1, nc + 1):
            for m2 in range(1, m1 + 1):
                for q in ("droop", "hare"):
                    for sm in (True, False):
                        for x in ("fractional", "random", "full"):
                            for tb in ("none", "random", "borda", "first_place"):
                                out.append(base_cfg(rule="Alaska", m=m2, m1=m1, quota=q, simul=sm, xfer=x, tb=tb))
    elif family == "tiered":
        out.append(base_cfg(rule="DominatingSets"))
        for m in range(1, nc + 1):
            out.append(base_cfg(rule="CondoBorda", m=m))
    elif family == "dictators":
        for r in ("RandomDictator", "BoostedRandomDictator"):
            for m in range(1, nc + 1):
                out.append(base_cfg(rule=r, m=m))
    elif family == "veto":
        for m in range(1, nc + 1):
            for tb in ("none", "random", "borda"):
                out.append(base_cfg(rule="PluralityVeto", m=m, tb=tb))
    return out


TIED_FAMILIES = ("oneshot", "dictators")


def need_int(c):
    return c["xfer"] == "random" or c["rule"] == "PluralityVeto"


def family_inputs(rng, family, cands, max_ballots, weights, per_bag=None, max_paths=300):
    rk = D.weak_rankings(cands) if family in TIED_FAMILIES else D.untied_rankings(cands)
    cfgs = family_configs(family, len(cands))
    inputs = inputs_exhaustive(rng, cands, rk, max_ballots, weights, cfgs, per_bag=per_bag, need_int=need_int)
    for i in inputs:
        i["max_paths"] = max_paths
    return inputs


def family_sampled(rng, family, n, cand_range, max_ballots, max_paths=60, rational=0.3, wmax=4):
    def cf(r, nc):
        return r.choice(family_configs(family, nc))
    return inputs_sampled(rng, n, cand_range, max_ballots, cf, tied=family in TIED_FAMILIES, rational=rational, wmax=wmax,
                          max_paths=max_paths)


def partial_tie_inputs(rng, family, n, rules=None):
    """inputs whose ties a borda / first_place tiebreak resolves only partially (D.partial_tie_bag)"""
    out = []
    for _ in range(n):
        nc = rng.randint(4, 5)
        cs = D.ABC[:nc]
        cfgs = [c for c in family_configs(family, nc) if c["tb"] in ("borda", "first_place", "random") and (rules is None or c["rule"] in rules)]
        out.append({"cfg": rng.choice(cfgs), "cands": cs, "ballots": D.partial_tie_bag(rng, cs, 2), "mode": "explore", "max_paths": 200,
                    "seed": rng.randrange(10**6)})
    return out


def add_slow_slice(rng, inputs, k):
    base = list(inputs)
    for inp in rng.sample(base, min(len(base), k)):
        s = dict(inp)
        s["slow"] = True
        inputs.append(s)
    # a named slice: the same abstract inputs under concrete candidate names (awkward strings, names nested in one another such as
    # c1 / c10 or Ann / JoAnn) and another order of the candidate tuple; the recorder maps the run back to the abstract names
    r2 = random.Random(rng.randrange(10**9))
    for inp in r2.sample(base, min(len(base), 2 * k)):
        if "names" in inp or len(inp["cands"]) > len(D.NESTED):
            continue
        s = dict(inp)
        s["names"] = dict(zip(inp["cands"], D.sample_names(r2, len(inp["cands"]))))
        s["cand_order"] = r2.sample(list(inp["cands"]), len(inp["cands"]))
        inputs.append(s)
    # a many-rows slice: the same kind of profile written as 1,000 - 2,500 separate ballot rows of weight one (an uncondensed cast vote
    # record); the abstract bag -- what the specification sees -- stays a handful of rankings with weights in the hundreds
    pool = [i for i in base if i["ballots"] and i["cfg"]["xfer"] != "random" and i["cfg"]["rule"] != "PluralityVeto" and "names" not in i
            and all(b["w"][1] == 1 for b in i["ballots"])]
    for inp in r2.sample(pool, min(len(pool), max(6, k // 12))):
        tot = sum(b["w"][0] for b in inp["ballots"])
        f = -(-r2.randint(1001, 2500) // tot)
        s = dict(inp)
        rows = [{"r": b["r"], "w": [1, 1]} for b in inp["ballots"] for _ in range(b["w"][0] * f)]
        r2.shuffle(rows)
        s["ballots"], s["max_paths"], s["many_rows"] = rows, 40, True
        inputs.append(s)
    return inputs


# ----------------------------------------------------------------------------- generic driver
ALL_MC_INV = MC_INVARIANTS + ["MProbSum"]
ALL_MC_PROPS = MC_PROPS + ["MRandomOnlyWithTiebreak"]


def standard_run(pid, tier, seed, replay, mc_runs, corpus_fn, nontrivial, rule_text, extra=None, monitors=etrace.ALL_MONITORS, role3=None,
                 repo_test_rules=None, wide=None):
    """mc_runs: list of dicts(family, cands, max_ballots, max_w, with_half) per tier key"""
    res = Result(pid, tier, seed)
    scratch(pid)
    res.rule = rule_text
    res.replayed = bool(replay)
    if replay:
        inputs = [json.load(open(replay))["replay"]["input"]]
        if "hasK" in inputs[0].get("cfg", {}):           # a score-rule input (C01's score_rules slice): replayed by the extra step
            res.replay_score_input, inputs = inputs[0], []
    else:
        for i, mc in enumerate(mc_runs[tier]):
            model_check(res, pid, mc["family"], mc.get("cands", ["A", "B", "C"]), mc["max_ballots"], mc["max_w"],
                        with_half=mc.get("with_half", False), invariants=mc.get("invariants", ALL_MC_INV),
                        props=mc.get("props", ALL_MC_PROPS), name="mc%d_%s" % (i, mc["family"]), simulate=mc.get("simulate"))
        for i, r3 in enumerate((role3 or {}).get(tier, [])):
            behaviour_set_equality(res, pid, r3["family"], r3.get("cands", ["A", "B", "C"]), r3["max_ballots"], r3["max_w"],
                                   with_half=r3.get("with_half", False), name="role3_%d_%s" % (i, r3["family"]))
        inputs = corpus_fn(tier, seed)
    res.evaluations = len(inputs)
    res.notes["inputs"] = len(inputs)
    traces = record_corpus(inputs)
    if repo_test_rules and not replay:
        # the repository's own election tests, run on the tree with the recorder plugin: every election they construct is validated too
        from .. import repo_tests
        rt, info = repo_tests.record_repo_tests(os.path.join(OUT, pid, "repo_tests"), tier)
        rt = [t for t in rt if t["cfg"]["rule"] in repo_test_rules]
        info["traces_used"] = len(rt)
        res.notes["repo_test_traces"] = info
        traces += rt
    res.notes["explored_inputs"] = len({json.dumps(t["_inp"], sort_keys=True) for t in traces if t["_info"].get("explored")})
    verdicts, byid = judge(res, pid, traces, os.path.join(OUT, pid, "traces"), monitors=monitors, nontrivial=nontrivial)
    if wide is not None:
        wide_stv(res, pid, tier, seed, verdicts, byid, replay_traces=[t for t in traces if not in_arith_range(t)] if replay else None, **wide)
    if extra:
        extra(res, traces, verdicts, byid)
    return res


# ----------------------------------------------------------------------------- role 3: behaviour-set equality
def _canon_round(r, rule=None, idx=0):
    c = _canon_round0(r)
    if rule == "TopTwo" and idx == 1 and c["tiebreaks"]:
        c["bag"] = "not observable"      # returned by a replay that re-draws the runoff tiebreak (see ElectionTrace.Match)
    return c


def _canon_round0(r):
    return {"elected": [sorted(g) for g in r["elected"]], "eliminated": [sorted(g) for g in r["eliminated"]],
            "remaining": [sorted(g) for g in r["remaining"]],
            "scores": sorted([[c, list(v)] for c, v in r["scores"]]),
            "tiebreaks": sorted([{"tied": sorted(t["tied"]), "order": [sorted(g) for g in t["order"]]} for t in r["tiebreaks"]], key=lambda t: t["tied"]),
            "bag": sorted([{"r": [sorted(p) for p in b["r"]], "w": list(b["w"])} for b in r["bag"]], key=lambda b: json.dumps(b["r"]))}


def behaviour_set_equality(res, pid, family, cands, max_ballots, max_w, with_half=False, name="role3"):
    """spec [= code AND code [= spec on an exhaustively enumerated domain: TLC emits every terminal behaviour of the bounded model;
    for every input the set of complete runs of the real code over all outcomes of its random draws must equal the emitted set."""
    wd = os.path.join(OUT, pid, name)
    os.makedirs(wd, exist_ok=True)
    emit = os.path.join(wd, "behaviours.ndjson")
    if os.path.exists(emit):
        os.remove(emit)
    r = model_check(res, pid, family, cands, max_ballots, max_w, with_half=with_half, invariants=["MTypeOK"], props=[], name=name, coverage=False, emit=emit)
    from ..common import read_ndjson
    spec = {}
    for b in read_ndjson(emit):
        cfg = dict(b["cfg"])
        cfg["vec"] = [list(x) for x in cfg.get("vec", [])]
        key = json.dumps({"cfg": cfg, "prof0": sorted([{"r": [sorted(p) for p in x["r"]], "w": list(x["w"])} for x in b["prof0"]], key=lambda x: json.dumps(x["r"]))}, sort_keys=True)
        beh = json.dumps({"status": b["status"], "rounds": [_canon_round(x, cfg["rule"], i) for i, x in enumerate(b["rounds"][1:])]}, sort_keys=True)
        spec.setdefault(key, set()).add(beh)
    os.remove(emit)
    inputs = []
    for key in spec:
        k = json.loads(key)
        inputs.append({"cfg": k["cfg"], "cands": list(cands), "ballots": k["prof0"], "mode": "explore", "max_paths": 2000, "_key": key})
    traces = record_corpus(inputs)
    code = {}
    complete = {}
    for t in traces:
        key = t["_inp"]["_key"]
        complete[key] = complete.get(key, True) and t["_info"].get("explored", False)
        evs = t["events"]
        err = [e for e in evs if e["ev"] != "Round"]
        status = "finished" if not err else (err[0].get("class") or err[0]["ev"])
        beh = json.dumps({"status": status, "rounds": [_canon_round(e, t["cfg"]["rule"], i) for i, e in enumerate([e for e in evs if e["ev"] == "Round"])]}, sort_keys=True)
        code.setdefault(key, set()).add(beh)
    compared = skipped = skipped_err = 0
    for key, sb in sorted(spec.items()):
        if any(json.loads(b)["status"] == "overelected" for b in sb):
            skipped += 1          # recorded finding KF_overelect / KF_thr0: the implementation has no behaviour to compare
            continue
        cb = code.get(key, set())
        if not complete.get(key):
            skipped += 1
            continue
        spec_status = {json.loads(b)["status"] for b in sb}
        if any(json.loads(b)["status"] not in ({"finished"} | spec_status) for b in cb):
            skipped_err += 1      # some run ends in an exception the spec has no behaviour for: role 2 / C01 speak about that input (recorded findings)
            continue
        compared += 1
        if cb != sb:
            k = json.loads(key)
            only_spec = sorted(sb - cb)[:1]
            only_code = sorted(cb - sb)[:1]
            kind = "CodeLacksSpecBehaviour" if only_spec and not only_code else ("CodeHasExtraBehaviour" if only_code and not only_spec else "BehaviourSetsDiffer")
            res.violation("%s:%s:-" % (k["cfg"]["rule"], kind), "the set of complete runs of the code over all random outcomes (%d) differs from the set of "
                          "terminal behaviours of the specification (%d) for this input" % (len(cb), len(sb)),
                          {"input": {"cfg": k["cfg"], "cands": list(cands), "ballots": k["prof0"], "mode": "explore"},
                           "only_in_spec": [json.loads(x) for x in only_spec], "only_in_code": [json.loads(x) for x in only_code]})
    res.traces += len(traces)
    res.notes["behaviour_set_equality"] = {"inputs": len(spec), "compared": compared, "skipped_known_or_incomplete": skipped, "skipped_runs_ending_in_other_exception": skipped_err,
                                           "spec_behaviours": sum(len(v) for v in spec.values()), "code_runs": len(traces)}
    return compared


# ----------------------------------------------------------------------------- wide STV counts (beyond TLC's 32-bit exact range)
def _wide_inputs(rng, n, rules, coalition=False):
    from ..elections import base_cfg
    out = []
    for _ in range(n):
        nc = rng.randint(4, 9)
        cands = D.ABC[:nc] if nc <= len(D.ABC) else [chr(65 + i) for i in range(nc)]
        rule = rng.choice(rules)
        m = 1 if rule == "IRV" else rng.randint(1, nc - 1)
        style = rng.choice(["large", "large", "grain", "equal", "ulp"])
        nb = rng.randint(6, 40)
        ballots = []

        def weight():
            if style == "large":
                return F(rng.randint(1, 5000))
            if style == "grain":
                return F(rng.randint(1, 4000), rng.choice([1, 3, 7, 11, 13, 10007, 999983]))       # incl. large prime denominators
            if style == "ulp":
                return F(2**53 + rng.choice([0, 1, 1, 2, 3]))   # piles one vote apart above 2^53: distinct tallies that doubles cannot tell apart
            return F(rng.choice([100, 250, 250, 1000]))       # equal piles: ties at election and at elimination
        if coalition:
            S = rng.sample(cands, rng.randint(1, nc - 1))
            others = [c for c in cands if c not in S]
            for _ in range(rng.randint(2, 12)):
                perm = rng.sample(S, len(S))
                tail = rng.sample(others, rng.randint(0, len(others)))
                ballots.append({"r": [[c] for c in perm + tail], "w": rat(weight())})
        while len(ballots) < nb:
            r = rng.sample(cands, rng.randint(1, nc))
            ballots.append({"r": [[c] for c in r], "w": rat(weight())})
        quota = "droop" if coalition else rng.choice(["droop", "droop", "hare"])
        if not coalition and rng.random() < 0.25:
            # a first-round tally just below / exactly at / just above the quota (off by 1e-10 .. 1e-15 of a vote): >= is exact
            x = rng.choice(cands)
            others = [c for c in cands if c != x]
            qv = rng.randint(5, 3000)
            T = qv * m - rng.randint(0, m) if quota == "droop" else qv * (m - 1) + rng.randint(1, m)
            eps = rng.choice([-1, -1, 0, 1]) * F(1, 10 ** rng.choice([10, 12, 15]))
            if T > 0 or quota == "droop":
                ballots, left = [], max(T, 0)
                while left > 0:
                    w = rng.randint(1, left)
                    h = rng.choice(others)
                    ballots.append({"r": [[h]] + [[c] for c in rng.sample([c for c in cands if c != h], rng.randint(0, nc - 1))], "w": [w, 1]})
                    left -= w
                part = F(rng.randint(1, qv - 1)) if qv > 1 and rng.random() < 0.5 else F(0)
                for w in (part, qv + eps - part):
                    if w > 0:
                        ballots.append({"r": [[x]] + [[c] for c in rng.sample(others, rng.randint(0, nc - 1))], "w": rat(w)})
        rng.shuffle(ballots)
        cfg = base_cfg(rule=rule, m=m, quota=quota,
                       simul=True if rule == "IRV" else rng.random() < 0.5,
                       xfer="full" if rule == "SequentialRCV" else "fractional", tb=rng.choice(["random", "borda", "first_place", "none"]))
        out.append({"cfg": cfg, "cands": cands, "ballots": ballots, "mode": "real", "seed": rng.randrange(10**6), "omit_defaults": rng.random() < 0.3})
    return out


def wide_stv(res, pid, tier, seed, verdicts, byid, rules=STV_RULES, n=None, coalition=False, replay_traces=None):
    """STV / IRV / SequentialRCV counts whose tallies leave TLC's exact range (4-9 candidates, 6-40 ballots, weights in the thousands, chained
    fractional surpluses): each recorded round is checked against harness/stv_mirror.py, the exact-fraction transcription of the STV actions
    and monitors of Election.tla.  Declared in evidence as python_compared.  The transcription is first cross-checked against TLC on this very
    run: it must give the same accept / reject verdict as ElectionTrace.tla on every in-range STV-family trace just validated; if it does not,
    the supplement is skipped (and the evidence says so) rather than trusted."""
    from .. import stv_mirror as M
    ncmp = dis = 0
    for tid, v in verdicts.items():
        t = byid[tid]
        if t["cfg"]["rule"] not in STV_RULES or t["cfg"]["xfer"] == "random" or not t.get("has_round0"):
            continue
        acc = not etrace.problems(v)
        try:
            macc = not M.check_trace(t)
        except Exception:  # noqa
            macc = None
        ncmp += 1
        if acc and macc is not True:
            dis += 1            # the transcription is stricter than the specification: its alarms would be unsound
    res.notes["mirror_cross_check"] = {"in_range_traces_compared_with_TLC": ncmp, "accepted_by_TLC_rejected_by_transcription": dis}
    if dis:
        res.notes["mirror_cross_check"]["consequence"] = "wide supplement skipped"
        return
    rng = random.Random(9000 + seed + sum(map(ord, pid)))
    n = n or (600 if tier == "quick" else 20000)
    traces = replay_traces if replay_traces is not None else record_corpus(_wide_inputs(rng, n, rules, coalition))
    cc = {}
    wide = 0
    for t in traces:
        if not in_arith_range(t):
            wide += 1
        for clause, i in M.check_trace(t):
            if clause == "KF":
                continue
            cc[clause] = cc.get(clause, 0) + 1
            if pid in clause_property(t["cfg"]["rule"], clause):
                res.violation("%s:Wide(py):%s" % (t["cfg"]["rule"], clause), "wide count of %s (%d candidates, %d ballots): event %d violates clause %s of the "
                              "exact-fraction reading of Election.tla" % (t["cfg"]["rule"], len(t["cands"]), len(t["_inp"]["ballots"]), i, clause),
                              {"input": t["_inp"], "trace": {k: x for k, x in t.items() if not k.startswith("_")}})
    res.notes["python_compared"] = res.notes.get("python_compared", 0) + len(traces)
    res.notes["wide_stv"] = {"runs": len(traces), "beyond_tlc_range": wide, "rounds": sum(len(t["events"]) for t in traces), "clauses": cc,
                             "note": "checked against harness/stv_mirror.py (exact-fraction transcription of the STV actions of Election.tla)"}
