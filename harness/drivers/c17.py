"""C17 -- randomised rules and random tiebreaks draw from the documented distributions."""
import random
from . import elect as EL
from .. import domains as D

PID = "C17"
MC = {"quick": [dict(family="dictators", max_ballots=2, max_w=1, with_half=True), dict(family="oneshot", max_ballots=1, max_w=2)],
      "thorough": [dict(family="dictators", max_ballots=2, max_w=2, with_half=True), dict(family="oneshot", max_ballots=2, max_w=1),
                   dict(family="droop", max_ballots=2, max_w=2)]}


def corpus(tier, seed):
    rng = random.Random(1700 + seed)
    q = tier == "quick"
    cands = ["A", "B", "C"]
    inputs = EL.family_inputs(rng, "dictators", cands, 2, D.INT_W(2), per_bag=1 if q else None, max_paths=600)
    if q:
        inputs = rng.sample(inputs, min(len(inputs), 1300))
    inputs += EL.family_inputs(rng, "dictators", cands, 2, D.HALF_W + [[1, 3]], per_bag=1 if q else 3, max_paths=600)
    inputs += EL.family_sampled(rng, "dictators", 120 if q else 4000, (4, 4), 4, max_paths=400, wmax=3)
    # random tiebreaks of the other rules: uniform over the orders of the tied set
    def rnd(c):
        return c["tb"] == "random"
    for fam in ("stv", "oneshot", "composite"):
        ins = [i for i in EL.family_inputs(rng, fam, cands, 2, D.INT_W(1), per_bag=None) if rnd(i["cfg"])]
        inputs += rng.sample(ins, min(len(ins), 300 if q else 6000))
    return EL.add_slow_slice(rng, inputs, 80 if q else 800)


def run(tier, seed, replay=None):
    return EL.standard_run(
        PID, tier, seed, replay, MC, corpus,
        nontrivial=lambda t: any(e.get("p", [1, 1]) not in ([1, 1], [0, 0]) for e in t["events"]),
        role3={"quick": [dict(family="dictators", max_ballots=1, max_w=2)], "thorough": [dict(family="dictators", max_ballots=2, max_w=2)]},
        rule_text="every random draw of the real code is replaced by a scripted source and *all* outcomes are enumerated, so the code's exact "
                  "law of each round given the rounds before it is known (a rational, no sampling error); TLC validates that each recorded "
                  "round is a successor of the probability-labelled actions DictatorDraw / BoostedDraw / tie resolutions of Election.tla "
                  "with exactly that label, and checks on the bounded model that the labels of the enabled draw sum to one (ProbSum) -- together: "
                  "the code's law equals the specified law. non-trivial = distinct inputs with at least one step of probability strictly "
                  "between 0 and 1")
