"""C20 -- invalid requests are rejected up front with the documented error."""
import random, os, json, itertools, multiprocessing as mp
from fractions import Fraction as F
from ..common import Result, OUT, scratch, run_tlc, Machinery, tlc_error_excerpt, rat, quiet
from ..common import fork_pool
from .. import domains as D
from ..calltrace import judge_calls

PID = "C20"
MC_INV = ["Total_", "OkIffNoViolation", "BoundaryAccepted", "BoundaryRefused", "RandomTransferRefusal"]
RANK_RULES = ["STV", "IRV", "SequentialRCV", "Plurality", "SNTV", "Borda", "TopTwo", "Alaska", "DominatingSets", "CondoBorda",
              "RandomDictator", "BoostedRandomDictator", "PluralityVeto"]
RATING_RULES = ["GeneralRating", "Rating", "Limited", "Cumulative", "Approval", "BlocPlurality"]


def blank(rule, **kw):
    t = {"op": "validate", "rule": rule, "n": 3, "m": 1, "m1": 2, "quota": "droop", "vec": [], "noranking": False, "prof0": [], "unscored": 0,
         "sprof0": [], "gen": "", "L": [1, 1], "hasK": False, "k": [1, 1], "outcome": "", "partial": False,
         "ballots": [], "sballots": [], "pos": -1, "tb": "random", "xfer": "fractional"}
    t.update(kw)
    return t


def good_ballots(rng, cands, n=3, integer=True):
    rk = D.untied_rankings(cands)
    return [{"r": rng.choice(rk), "w": [rng.randint(1, 3), 1] if integer else [rng.randint(1, 5), 2]} for _ in range(n)]


def requests(tier, seed):
    rng = random.Random(2000 + seed)
    q = tier == "quick"
    reqs = []
    reps = 2 if q else 12
    for _ in range(reps):
        for nc in (2, 3, 4):
            cands = D.ABC[:nc]
            for rule in RANK_RULES:
                base = dict(n=nc, m=min(2, nc) if rule not in ("IRV", "TopTwo", "DominatingSets") else 1, m1=nc, tb="random")
                if rule == "Alaska":
                    base["m"] = 1
                # accepted boundary twins and seat-count violations
                for m in (0, -1, 1, nc, nc + 1):
                    reqs.append(blank(rule, **dict(base, m=m, ballots=good_ballots(rng, cands))))
                # a ballot without ranking at the first / middle / last position
                for pos in (0, 1, 2):
                    bl = good_ballots(rng, cands)
                    bl[pos] = {"r": [], "w": [1, 1]}
                    reqs.append(blank(rule, **dict(base, ballots=bl, pos=pos, noranking=True)))
                # a tied position (first / later) on a ballot at any position
                if rule != "PluralityVeto":
                    for pos in (0, 1, 2):
                        bl = good_ballots(rng, cands)
                        tied = [[cands[0], cands[1]]] + ([[c] for c in cands[2:]] if rng.random() < 0.5 else [])
                        if rng.random() < 0.5 and nc >= 3:
                            tied = [[cands[2]], [cands[0], cands[1]]]
                        bl[pos] = {"r": tied, "w": [1, 1]}
                        reqs.append(blank(rule, **dict(base, ballots=bl, pos=pos)))
                # non-integer weights
                for pos in (0, 2):
                    bl = good_ballots(rng, cands)
                    bl[pos] = {"r": bl[pos]["r"], "w": rng.choice([[1, 2], [3, 2], [5, 3]])}
                    reqs.append(blank(rule, **dict(base, ballots=bl, pos=pos)))
                if rule == "STV":
                    # the random transfer on a pile with a non-integer weight (every ballot led by the same candidate: the transfer is applied to
                    # the whole profile in round 1), by a half, a third and a hair; and the accepted twin with whole weights
                    for wbad in ([1, 2], [7, 3], [3001, 1000], [2, 1]):
                        lead = rng.choice(cands)
                        others = [c for c in cands if c != lead]
                        bl = [{"r": [[lead]] + [[c] for c in rng.sample(others, rng.randint(1, len(others)))], "w": [rng.randint(1, 3), 1]} for _ in range(rng.randint(1, 3))]
                        bl[rng.randrange(len(bl))]["w"] = wbad
                        bl.append({"r": [[lead]], "w": [2, 1]})            # at least two votes in all: the leader meets the quota in round 1
                        reqs.append(blank(rule, **dict(base, m=1, xfer="random", ballots=bl, pos=0)))
                if rule in ("STV", "SequentialRCV", "IRV", "Alaska"):
                    for quota in ("droop", "hare", "Droop", "imperiali", ""):
                        reqs.append(blank(rule, **dict(base, quota=quota, ballots=good_ballots(rng, cands))))
                if rule == "Alaska":
                    for m1, m2 in ((0, 1), (-1, 1), (2, 0), (1, 2), (nc + 1, 1), (nc, nc), (nc, 1), (1, 1)):
                        reqs.append(blank(rule, **dict(base, m1=m1, m=m2, ballots=good_ballots(rng, cands))))
                if rule == "Borda":
                    for vec in ([3, 2, 1], [1, 1, 1], [2, 2, 1], [1, F(3, 2)], [2, 1, F(3, 2)], [-1], [3, 2, F(-1, 2)], [0, 0], [F(1, 2), 1], [5],
                                [5, 4, 3, 2, 1, 7], [5, 4, 3, 2, 1, 0, -1], [5, 4, 3, 2, 1, 1], [9, 8, 7, 6, 5, 4, 3, 2, 1]):
                        reqs.append(blank(rule, **dict(base, m=1, vec=[rat(F(x)) for x in vec], ballots=good_ballots(rng, cands))))
            for rule in ("validate_score_vector", "score_profile_from_rankings"):
                for vec in ([3, 2, 1], [2, 2], [1, 2], [2, 1, F(3, 2)], [-1], [1, F(-1, 2)], [0], [F(1, 2), F(1, 2), F(1, 3)]):
                    reqs.append(blank(rule, n=nc, vec=[rat(F(x)) for x in vec], ballots=good_ballots(rng, cands)))
            # score rules: parameter violations and ballot violations (first / middle / last ballot; smallest step and gross)
            for rule in RATING_RULES:
                for m in (0, 1, nc, nc + 1):
                    reqs.append(rating_req(rng, rule, cands, m=m))
                if rule in ("GeneralRating", "Rating"):
                    for L in (F(0), F(-1), F(1, 2), F(1)):
                        reqs.append(rating_req(rng, rule, cands, L=L))
                if rule in ("GeneralRating", "Limited", "BlocPlurality"):
                    for k in (F(0), F(-1), F(1)):
                        reqs.append(rating_req(rng, rule, cands, k=k, hasK=True, m=max(1, min(nc, 2))))
                if rule == "GeneralRating":
                    for L, k in ((F(2), F(1)), (F(1), F(1)), (F(3, 2), F(1))):
                        reqs.append(rating_req(rng, rule, cands, L=L, k=k, hasK=True))
                if rule == "Limited":
                    for k, m in ((F(2), 1), (F(2), 2), (F(3, 2), 1), (F(1), 1)):
                        if m <= nc:
                            reqs.append(rating_req(rng, rule, cands, k=k, hasK=True, m=m))
                for kind in ("unscored", "negative", "overL_step", "overL_gross", "overK_step", "overK_gross", "equalL", "equalK", "allzero"):
                    for pos in (0, 1, 2):
                        reqs.append(rating_req(rng, rule, cands, bad=kind, pos=pos))
    # generators, helpers and profiles
    for gen in ["", "sum_within_rounding", "cohesion_within_rounding", "props_sum_above", "props_sum_below", "props_sum_gross", "cohesion_sum_above",
                "cohesion_sum_gross", "names_props_intervals", "names_props_cohesion", "names_intervals_cohesion", "no_candidates",
                "from_params_props_sum", "from_params_names"]:
        for cls in ["name_PlackettLuce", "name_BradleyTerry", "slate_PlackettLuce", "slate_BradleyTerry", "AlternatingCrossover", "name_Cumulative",
                    "short_name_PlackettLuce", "CambridgeSampler"]:
            for nb in (1, 2, 3):
                reqs.append(blank("generator", gen=gen, quota=cls, n=nb))
    for gen in ["intervals_overlap", "intervals_overlap_zero_support", "combine_props_sum", "combine_within_rounding", "point_sum", "", "duplicate_candidates_adjacent", "duplicate_candidates_apart"]:
        for nb in (2, 3):
            reqs.append(blank("generator", gen=gen, quota="helper", n=nb))
    return reqs


def rating_req(rng, rule, cands, m=1, L=F(1), k=None, hasK=False, bad=None, pos=-1):
    nc = len(cands)
    if rule == "Limited":
        k = k if k is not None else F(1)
        hasK, Lim, bud = True, k, k
    elif rule == "Cumulative":
        hasK, Lim, bud = True, F(m), F(m)
    elif rule == "Approval":
        Lim, bud = F(1), None
    elif rule == "BlocPlurality":
        Lim, bud = F(1), (k if hasK else F(m))
    elif rule == "Rating":
        Lim, bud = L, None
    else:
        Lim, bud = L, (k if hasK else None)
    half = F(1, 2)
    ok_score = min(Lim, bud) if bud is not None else Lim
    if ok_score <= 0:
        ok_score = F(1)
    okb = lambda: {"s": [[rng.choice(cands), rat(ok_score)]], "w": [rng.randint(1, 2), 1]}  # noqa
    bl = [okb(), okb(), okb()]
    if bad:
        a, b = cands[0], cands[1]
        badb = {"unscored": {"s": [], "w": [1, 1]}, "allzero": {"s": [[a, [0, 1]], [b, [0, 1]]], "w": [1, 1]},
                "negative": {"s": [[a, rat(ok_score)], [b, rat(-half)]], "w": [1, 1]},
                "overL_step": {"s": [[a, rat(Lim + half)]], "w": [1, 1]}, "overL_gross": {"s": [[a, rat(Lim + 5)]], "w": [1, 1]},
                "equalL": {"s": [[a, rat(Lim)]], "w": [1, 1]}}
        if bud is not None:
            x = bud / 2
            badb["overK_step"] = {"s": [[a, rat(x)], [b, rat(x + half)]], "w": [1, 1]}
            badb["overK_gross"] = {"s": [[a, rat(bud)], [b, rat(bud)]], "w": [1, 1]}
            badb["equalK"] = {"s": [[a, rat(x)], [b, rat(x)]], "w": [1, 1]}
        if bad not in badb:
            bad = "equalL"
        bl[pos] = badb[bad]
    return blank(rule, n=nc, m=m, L=rat(Lim if rule in ("GeneralRating", "Rating") else L), hasK=hasK or rule in ("Limited",), k=rat(k if k is not None else F(1)),
                 sballots=bl, pos=pos, tb="random", gen=bad or "")


def work(t):
    from .. import elections as E
    from ..common import load_votekit
    load_votekit()
    from votekit import Ballot, PreferenceProfile
    import votekit.elections as VE
    E.fast_df(True)
    E.install_recorder()
    from .. import rng
    rng.install()
    rng.seed_real(7)
    t = dict(t)
    cands = D.ABC[:t["n"]] if t["rule"] != "generator" else []
    del E._LOG[:]
    del E._CREATED[:]
    try:
        with quiet():
            run_request(t, cands, E, VE, Ballot, PreferenceProfile)
        t["outcome"] = "ok"
    except E.NonTermination:
        return []      # a valid request whose count never ends (the recorded C01 finding on PluralityVeto): not a refusal, not a C20 matter
    except Exception as ex:  # noqa
        name = type(ex).__name__
        t["outcome"] = "ValueError" if isinstance(ex, ValueError) and name in ("ValidationError",) else name
    t["partial"] = False   # the request is the constructor call itself: an exception leaves no object behind
    # abstract view of the profile for the spec
    if t["ballots"]:
        t["prof0"] = E._abstract_bag([b for b in t["ballots"] if b["r"]])
    if t["sballots"]:
        sb, uns = {}, 0
        for b in t["sballots"]:
            key = tuple(sorted((c, tuple(s)) for c, s in b["s"] if s[0] != 0))
            if not key:
                uns += 1
                continue
            sb[key] = sb.get(key, 0) + F(*b["w"])
        t["sprof0"] = [{"s": [[c, list(s)] for c, s in kk], "w": rat(v)} for kk, v in sorted(sb.items())]
        t["unscored"] = uns
    inp = dict(t)
    t["_inp"] = inp
    t.pop("ballots")
    t.pop("sballots")
    return [t]


def run_request(t, cands, E, VE, Ballot, PreferenceProfile):
    rule = t["rule"]
    tb = t["tb"]
    if rule == "generator":
        return generator_request(t)
    if rule in ("validate_score_vector", "score_profile_from_rankings"):
        from votekit import utils as U
        vec = [F(*x) for x in t["vec"]]
        if rule == "validate_score_vector":
            return U.validate_score_vector(vec)
        return U.score_profile_from_rankings(E.build_profile(cands, t["ballots"]), vec)
    if rule in RATING_RULES:
        bl = []
        for b in t["sballots"]:
            sc = {c: F(*s) for c, s in b["s"]}
            bl.append(Ballot(scores=sc, weight=F(*b["w"])) if sc else Ballot(weight=F(*b["w"])))
        p = PreferenceProfile(ballots=tuple(bl), candidates=tuple(cands))
        L, k, m = F(*t["L"]), F(*t["k"]), t["m"]
        if rule == "GeneralRating":
            return VE.GeneralRating(p, m=m, L=L, k=k if t["hasK"] else None, tiebreak=tb)
        if rule == "Rating":
            return VE.Rating(p, m=m, L=L, tiebreak=tb)
        if rule == "Limited":
            return VE.Limited(p, m=m, k=k, tiebreak=tb)
        if rule == "Cumulative":
            return VE.Cumulative(p, m=m, tiebreak=tb)
        if rule == "Approval":
            return VE.Approval(p, m=m, tiebreak=tb)
        return VE.BlocPlurality(p, m=m, k=int(k) if t["hasK"] else None, tiebreak=tb)
    bl = []
    for b in t["ballots"]:
        rk = tuple(frozenset(pos) for pos in b["r"])
        bl.append(Ballot(ranking=rk, weight=F(*b["w"])) if rk else Ballot(weight=F(*b["w"])))
    p = PreferenceProfile(ballots=tuple(bl), candidates=tuple(cands))
    m, q = t["m"], t["quota"]
    if rule == "STV":
        return VE.STV(p, m=m, quota=q, tiebreak=tb, **({"transfer": VE.random_transfer} if t.get("xfer") == "random" else {}))
    if rule == "IRV":
        return VE.IRV(p, quota=q, tiebreak=tb)
    if rule == "SequentialRCV":
        return VE.SequentialRCV(p, m=m, quota=q, tiebreak=tb)
    if rule in ("Plurality", "SNTV"):
        return getattr(VE, rule)(p, m=m, tiebreak=tb)
    if rule == "Borda":
        return VE.Borda(p, m=m, score_vector=[F(*x) for x in t["vec"]] or None, tiebreak=tb)
    if rule == "TopTwo":
        return VE.TopTwo(p, tiebreak=tb)
    if rule == "Alaska":
        return VE.Alaska(p, m_1=t["m1"], m_2=m, quota=q, tiebreak=tb)
    if rule == "DominatingSets":
        return VE.DominatingSets(p)
    if rule == "CondoBorda":
        return VE.CondoBorda(p, m=m)
    if rule in ("RandomDictator", "BoostedRandomDictator"):
        return getattr(VE, rule)(p, m=m)
    if rule == "PluralityVeto":
        return VE.PluralityVeto(p, m=m, tiebreak=tb)
    raise Machinery("unknown rule " + rule)


def generator_request(t):
    import votekit.ballot_generator as bg
    from votekit import PreferenceInterval, PreferenceProfile, Ballot
    from votekit.pref_interval import combine_preference_intervals
    gen, cls, nb = t["gen"], t["quota"], t["n"]
    if cls == "helper":
        if gen in ("intervals_overlap", "intervals_overlap_zero_support", "combine_props_sum", "combine_within_rounding", ""):
            ivs = [PreferenceInterval({"A%d" % i: 0.6, "B%d" % i: 0.4}) for i in range(nb)]
            if gen == "intervals_overlap":
                ivs[-1] = PreferenceInterval({"A0": 0.5, "Z": 0.5})
            if gen == "intervals_overlap_zero_support":      # the shared candidate has support 0 in one of the two intervals
                ivs[-1] = PreferenceInterval({"A0": 0.0, "Z": 1.0})
            props = [1.0 / nb] * nb
            if gen == "combine_props_sum":
                props[0] += 0.01
            if gen == "combine_within_rounding":
                props[0] += 1e-10
            return combine_preference_intervals(ivs, props)
        if gen == "point_sum":
            return bg.BallotSimplex.from_point(point={"A": 0.5, "B": 0.3, "C": 0.1}, candidates=["A", "B", "C"])
        if gen.startswith("duplicate_candidates"):
            cs = ("A", "A", "B") if gen.endswith("adjacent") else ("A", "B", "C", "A")
            return PreferenceProfile(ballots=(Ballot(ranking=(frozenset({"A"}),)),), candidates=cs)
    blocs = ["X", "Y", "Z"][:nb]
    slates = {b: [b + "1", b + "2"] for b in blocs}
    props = {b: 1.0 / nb for b in blocs}
    props[blocs[0]] += 1.0 - sum(props.values())
    coh = {b: {c: (0.7 if c == b else 0.3 / max(1, nb - 1)) if nb > 1 else 1.0 for c in blocs} for b in blocs}
    for b in blocs:
        coh[b][b] += 1.0 - sum(coh[b].values())
    ivs = {b: {c: PreferenceInterval({x: 1.0 / len(slates[c]) for x in slates[c]}) for c in blocs} for b in blocs}
    alphas = {b: {c: 1.0 for c in blocs} for b in blocs}
    if gen == "props_sum_above":
        props[blocs[0]] += 1e-3
    elif gen == "props_sum_below":
        props[blocs[-1]] -= 1e-3
    elif gen in ("props_sum_gross", "from_params_props_sum"):
        props[blocs[0]] += 0.3
    elif gen == "sum_within_rounding":
        props[blocs[0]] += 1e-10
    elif gen == "cohesion_sum_above":
        coh[blocs[-1]][blocs[-1]] += 1e-3
    elif gen == "cohesion_sum_gross":
        coh[blocs[-1]][blocs[0]] += 0.3
    elif gen == "cohesion_within_rounding":
        coh[blocs[-1]][blocs[0]] += 1e-10
    elif gen == "names_props_intervals":
        ivs["W"] = ivs.pop(blocs[-1])
    elif gen == "names_props_cohesion":
        coh["W"] = coh.pop(blocs[-1])
    elif gen == "names_intervals_cohesion":
        props["W"] = props.pop(blocs[-1])
        ivs["W"] = ivs.pop(blocs[-1])
    kw = dict(slate_to_candidates=slates, bloc_voter_prop=props, cohesion_parameters=coh, pref_intervals_by_bloc=ivs)
    klass = getattr(bg, cls)
    if cls in ("name_PlackettLuce", "name_BradleyTerry", "name_Cumulative", "short_name_PlackettLuce"):
        kw.pop("slate_to_candidates")
        kw["candidates"] = [c for b in blocs for c in slates[b]]
        if cls == "name_Cumulative":
            kw["num_votes"] = 2
        if cls == "short_name_PlackettLuce":
            kw["ballot_length"] = 2
    if gen == "no_candidates":
        kw.pop("slate_to_candidates", None)
        kw.pop("candidates", None)
    if gen.startswith("from_params"):
        fkw = dict(slate_to_candidates=slates, bloc_voter_prop=props, cohesion_parameters=coh, alphas=alphas)
        if gen == "from_params_names":
            fkw["slate_to_candidates"] = {("W" if b == blocs[-1] else b): v for b, v in slates.items()}
        if cls == "name_Cumulative":
            fkw["num_votes"] = 2
        if cls == "short_name_PlackettLuce":
            fkw["ballot_length"] = 2
        return klass.from_params(**fkw)
    return klass(**kw)


def run(tier, seed, replay=None):
    res = Result(PID, tier, seed)
    scratch(PID)
    res.rule = ("role 1: MC_Validation -- the decision table Expected(request) is total and returns 'ok' exactly when no documented precondition is "
                "violated, on a grid of 364,800 requests around every boundary; role 2: requests to every election constructor (13 ranking rules, 6 "
                "score rules), the score-vector helpers, the bloc-parameterised generators (constructor and from_params), "
                "combine_preference_intervals, BallotSimplex.from_point and PreferenceProfile -- each violating exactly one precondition (by the "
                "smallest step and grossly, offending ballot first / middle / last) or sitting on the accepted side of the boundary -- are made to "
                "the real code; TLC compares the outcome class with Expected(request) and requires that no election round had run when an error "
                "surfaced. non-trivial = distinct requests that violate a precondition or sit exactly on a boundary")
    if replay:
        reqs = [json.load(open(replay))["replay"]["input"]]
    else:
        cfg = "SPECIFICATION Spec\n" + "".join("INVARIANT %s\n" % i for i in MC_INV) + "CHECK_DEADLOCK FALSE\n"
        r = run_tlc("MC_Validation", cfg, os.path.join(OUT, PID, "mc_validation"))
        res.add_tlc("MC_Validation grid", r)
        if r["hard"]:
            raise Machinery("TLC failed on MC_Validation: " + tlc_error_excerpt(r["out"]))
        if r["violated"]:
            res.violation("spec:MC_Validation:%s" % r["violated"], "the decision table violates %s" % r["violated"], {})
        reqs = requests(tier, seed)
    res.evaluations = len(reqs)
    with fork_pool(16) as pool:
        traces = [t for ts in pool.imap_unordered(work, reqs, chunksize=16) for t in ts]
    traces.sort(key=lambda t: json.dumps({k: v for k, v in t.items() if not k.startswith("_")}, sort_keys=True))
    for t in traces:
        if t["outcome"] != "ok" or t["gen"] or t["m"] == t["n"]:
            res.nontrivial.add(json.dumps({k: v for k, v in t.items() if not k.startswith("_")}, sort_keys=True))

    def sig_of(t, rec):
        detail = t["gen"] or ("pos%d" % t["pos"] if t["pos"] >= 0 else "")
        return "%s:%s:%s" % (t["rule"] if t["rule"] != "generator" else t["quota"], rec["clause"], detail)
    judge_calls(res, PID, "ValidationTrace", traces, sig_of=sig_of, what="request outcome differs from the documented refusal")
    return res
