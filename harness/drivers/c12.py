"""C12 -- ballot-editing utilities preserve order and lose no votes except exhausted ones.

role 1: spec/MC_ProfileADT.tla (removal / add-missing / de-duplicate / tie-expansion laws on every ballot sequence of the small alphabet);
role 2: spec/ProfileADTTrace.tla validates recorded calls of votekit.utils.remove_cand / add_missing_cands / expand_tied_ballot /
resolve_profile_ties and votekit.cleaning.remove_noncands / deduplicate_profiles / remove_empty_ballots / clean_profile / merge_ballots.

Environment: C12_SKIP_KNOWN=1 (default off) leaves out the one input class of the finding already reported for this property
(remove_cand on a *single Ballot* that loses all its candidates, leave_zero_weight_ballots=False); see notes/C11_C12_report.md.
"""
import random, os, json, itertools, multiprocessing as mp
from fractions import Fraction as F
from ..common import Result, OUT, scratch, run_tlc, Machinery, tlc_error_excerpt
from ..common import fork_pool
from .. import domains as D
from ..calltrace import judge_calls
from . import c11

PID = "C12"
MC_INV = ["RemovalConserves", "RemovalNoMention", "RemovalKeepsOrder", "RemoveNothing", "RemovalCommutesWithCondense", "DedupOK", "AddMissingOK",
          "ExpandEachOnce", "ExpandPreservesFpv", "ExpandPreservesBorda", "ExpandPreservesMargins", "CondenseConserves"]
W3 = [[1, 1], [2, 1], [1, 2]]
W8 = c11.W8
SC3 = [[], [["A", [1, 1]]], [["B", [2, 1]], ["C", [1, 2]]]]
FLAGS = [(c, z) for c in (True, False) for z in (True, False)]


def subsets(xs):
    return [list(s) for k in range(len(xs) + 1) for s in itertools.combinations(xs, k)]


def hints(rng, b):
    b = dict(b)
    b["wk"] = rng.choice(["int", "frac", "float"])
    if rng.random() < 0.3:
        b["id"] = "id%d" % rng.randrange(3)
    if rng.random() < 0.3:
        b["vs"] = ["v%d" % rng.randrange(4) for _ in range(rng.randint(1, 2))]
    return b


def emptied(b, x):
    return not [p for p in b["r"] if set(p) - set(x)] and not [c for c, _ in b["s"] if c not in x]


def repeated_rankings(cands, maxlen):
    return [[[c] for c in s] for k in range(1, maxlen + 1) for s in itertools.product(cands, repeat=k)]


def corpus(tier, seed):
    from ..adt import CLEANERS
    rng = random.Random(1200 + seed)
    q = tier == "quick"
    skip = os.environ.get("C12_SKIP_KNOWN") == "1"
    c3, c4 = ["A", "B", "C"], ["A", "B", "C", "D"]
    weak3, weak4 = D.weak_rankings(c3), D.weak_rankings(c4)
    unt3, unt4 = D.untied_rankings(c3), D.untied_rankings(c4)
    X3 = subsets(["A", "B", "C", "Z"])
    inputs = []

    def rc(bl, x, form, cond, lzw, **kw):
        if skip and form == "ballot" and not lzw and emptied(bl[0], x):
            return
        i = {"op": "remove_cand", "ballots": bl, "x": x, "form": form, "condense": cond, "lzw": lzw, "as_str": rng.random() < 0.5,
             "aslist": rng.random() < 0.3}
        i.update(kw)
        inputs.append(i)

    # ---- remove_cand: every single ballot (tied / partial / scored / scores only) x every removal set x form x flags
    single = [{"r": r, "s": s, "w": [1, 1]} for r in [[]] + weak3 for s in SC3 if r or s]
    full = [(b, x, form, fl) for b in single for x in X3 for form in ("profile", "tuple", "ballot") for fl in FLAGS]
    for b, x, form, (cond, lzw) in (rng.sample(full, 5000) if q else full):
        rc([hints(rng, dict(b, w=rng.choice(W3)))], x, form, cond, lzw)
    # ---- remove_cand on profiles / tuples of 2-5 ballots with deliberate collisions after removal
    pool3 = [{"r": r, "s": s} for r in [[]] + weak3 for s in SC3 if r or s]
    pool4 = [{"r": r, "s": s} for r in weak4 for s in ([], [], [["D", [1, 1]]], [["A", [2, 1]], ["C", [1, 2]]])]
    for _ in range(2500 if q else 60000):
        pool, names = (pool3, c3) if rng.random() < 0.6 else (pool4, c4)
        sub = rng.sample(pool, 3)
        bl = [hints(rng, dict(rng.choice(sub), w=rng.choice(W8))) for _ in range(rng.randint(2, 5))]
        x = rng.sample(names + ["Z"], rng.randint(0, len(names)))
        cond, lzw = rng.choice(FLAGS)
        # the profile's candidate list: inferred, exact, a superset -- or an official list that does not cover every name on the ballots
        # (write-ins, overvote markers: what remove_noncands exists for); the ballots are scrubbed of the removed names all the same
        cl = rng.choice([None, names, names + ["Q"], names[:-1], names[1:]])
        rc(bl, x, rng.choice(["profile", "tuple"]), cond, lzw, candlist=cl)
    # ---- add_missing_cands (profile.candidates may name candidates nobody voted for)
    for _ in range(700 if q else 15000):
        names = c3 if rng.random() < 0.5 else c4
        wk = weak3 if names is c3 else weak4
        bl = [hints(rng, {"r": rng.choice(wk), "s": rng.choice([[], [], [["A", [1, 1]]]]), "w": rng.choice(W8)}) for _ in range(rng.randint(0, 4))]
        if rng.random() < 0.05:
            bl.append({"r": [], "s": [], "w": [1, 1]})
        cl = names + rng.choice([[], [], ["Q"], ["Q", "R"]])
        rng.shuffle(cl)
        inputs.append({"op": "add_missing", "ballots": bl, "candlist": cl})
    # ---- expand_tied_ballot: every weak partial ranking of 3 and of 4 candidates
    for r in weak3 + weak4:
        for w in (W3 if len(r) and sum(len(p) for p in r) <= 3 else [rng.choice(W8)]):
            inputs.append({"op": "expand_ballot", "ballots": [hints(rng, {"r": r, "s": rng.choice([[], [["A", [1, 1]]]]), "w": w})], "cands": c4})
    inputs.append({"op": "expand_ballot", "ballots": [{"r": [], "s": [["A", [1, 1]]], "w": [1, 1]}], "cands": c3})
    # ---- resolve_profile_ties
    for _ in range(700 if q else 15000):
        names = c3 if rng.random() < 0.5 else c4
        wk = weak3 if names is c3 else weak4
        sub = rng.sample(wk, 3)
        bl = [hints(rng, {"r": rng.choice(sub), "s": [], "w": rng.choice(W3 + [[3, 1], [3, 2]])}) for _ in range(rng.randint(0, 4))]
        if rng.random() < 0.04:
            bl.append({"r": [], "s": [], "w": [1, 1]})
        inputs.append({"op": "resolve_ties", "ballots": bl, "cands": names})
    # ---- cleaning module: untied ballots as the loaders produce them
    rep3 = repeated_rankings(c3, 4)
    for r in rep3:                                                   # every sequence of <=4 names over 3 candidates, repeats included
        inputs.append({"op": "dedup", "ballots": [hints(rng, {"r": r, "s": [], "w": rng.choice(W3)})], "cands": c3})
    for _ in range(600 if q else 12000):
        sub = rng.sample(rep3, 3) + rng.sample(unt4, 1)
        bl = [hints(rng, {"r": rng.choice(sub), "s": rng.choice([[], [], [["A", [1, 1]]]]), "w": rng.choice(W8)}) for _ in range(rng.randint(1, 5))]
        if rng.random() < 0.04:
            bl.append({"r": [], "s": [], "w": [1, 1]})
        inputs.append({"op": "dedup", "ballots": bl, "cands": c4})
    for r in unt3:                                                   # every untied ballot x every removal set (none, some, all, absent names)
        for x in X3:
            inputs.append({"op": "remove_noncands", "ballots": [hints(rng, {"r": r, "s": [], "w": rng.choice(W3)})], "x": x, "cands": c3})
    for _ in range(1200 if q else 25000):
        names = c3 if rng.random() < 0.5 else c4
        un = unt3 if names is c3 else unt4
        sub = rng.sample(un, 3) + ([rng.choice(rep3)] if rng.random() < 0.3 else [])
        bl = [hints(rng, {"r": rng.choice(sub), "s": rng.choice([[], [], [["A", [1, 1]]]]), "w": rng.choice(W8)}) for _ in range(rng.randint(1, 5))]
        if rng.random() < 0.04:
            bl.append({"r": [], "s": [], "w": [1, 1]})
        x = rng.sample(names + ["Z", "Y"], rng.randint(0, len(names)))
        inputs.append({"op": "remove_noncands", "ballots": bl, "x": x, "cands": names, "candlist": rng.choice([None, names + ["Q"]])})
    for _ in range(400 if q else 8000):
        bl = []
        for _ in range(rng.randint(0, 5)):
            if rng.random() < 0.35:
                bl.append(hints(rng, {"r": [], "s": [], "w": rng.choice(W8), "rk": rng.choice(["none", "tuple"])}))
            else:
                bl.append(hints(rng, {"r": rng.choice(unt3), "s": [], "w": rng.choice(W8)}))
        inputs.append({"op": "remove_empty", "ballots": bl, "keep": rng.random() < 0.5, "cands": c3, "candlist": rng.choice([None, c3 + ["Q"]])})
    for _ in range(600 if q else 12000):
        sub = rng.sample(unt3, 4)
        bl = [hints(rng, {"r": rng.choice(sub), "s": [], "w": rng.choice(W8)}) for _ in range(rng.randint(0, 6))]
        inputs.append({"op": "clean_profile", "ballots": bl, "cleaner": rng.choice(sorted(CLEANERS)), "cands": c3})
    for _ in range(300 if q else 6000):
        r = rng.choice(unt4)
        bl = [{"r": r, "s": [], "w": rng.choice(W8), "vs": rng.choice([None, ["v1"], ["v2", "v3"], ["v1", "v4"]]), "wk": rng.choice(["int", "frac", "float"])}
              for _ in range(rng.randint(1, 4))]
        inputs.append({"op": "merge", "ballots": bl, "cands": c4})
    # ---- a slice through awkward concrete names, shuffled candidate tuples, split weights and the real pandas frame
    base = [i for i in inputs if i["op"] not in ("merge",)]
    for inp in rng.sample(base, min(len(base), 400 if q else 5000)):
        names = sorted({c for b in inp["ballots"] for p in b["r"] for c in p} | {c for b in inp["ballots"] for c, _ in b["s"]}
                       | set(inp.get("x", [])) | set(inp.get("candlist") or []) | set(inp.get("cands") or []))
        if len(names) > len(D.AWKWARD):
            continue
        plain = all(not b["s"] for b in inp["ballots"]) and inp["op"] not in ("expand_ballot", "clean_profile") and inp.get("form") != "ballot"
        conc = D.concretisations(rng, names, [{"r": b["r"], "w": b["w"]} for b in inp["ballots"]] if plain else [], 1)[0]
        j = dict(inp)
        j["names"] = conc["names"]
        j["real_df"] = True
        if plain:
            j["ballots"] = [{"r": b["r"], "s": [], "w": b["w"]} for b in conc["ballots"]]
        inputs.append(j)
    return inputs


def sig_of(t, rec):
    return rec["clause"]


def nontrivial_key(t):
    bl = t["ins"][0]
    op = t["op"]
    listed = {c for b in bl for p in b["r"] for c in p} | {c for b in bl for c, _ in b["s"]}
    if op in ("remove_cand", "remove_noncands"):
        if set(t["x"]) & listed:
            return json.dumps([op, bl, t["x"], t["form"], t["condense"], t["lzw"]])
    elif op in ("expand_ballot", "resolve_ties"):
        if any(len(p) > 1 for b in bl for p in b["r"]):
            return json.dumps([op, bl])
    elif op == "add_missing":
        if any({c for p in b["r"] for c in p} != set(t["cands"]) for b in bl):
            return json.dumps([op, bl, t["cands"]])
    elif op == "dedup":
        if any(len([c for p in b["r"] for c in p]) > len({c for p in b["r"] for c in p}) for b in bl):
            return json.dumps([op, bl])
    elif op == "remove_empty":
        if any(not b["r"] for b in bl) and any(b["r"] for b in bl):
            return json.dumps([op, bl])
    elif op in ("clean_profile", "merge"):
        if len(bl) > 1:
            return json.dumps([op, bl, t["form"], t["voters"]])
    return None


def wide_expand(res, tier, seed):
    """expand_tied_ballot / resolve_profile_ties on weights whose share  w / (k1! k2! ...)  has a denominator beyond TLC's exact range
    (up to ~10^9): each linearisation exactly once, equal weights, adding up to the original -- ExpandTies of ProfileADT.tla evaluated in
    exact Python fractions (declared in evidence as python_compared)."""
    import itertools, math
    from fractions import Fraction as F
    from ..common import load_votekit, quiet
    load_votekit()
    from votekit import Ballot, PreferenceProfile
    from votekit.utils import expand_tied_ballot, resolve_profile_ties
    rng = random.Random(1212 + seed)
    weights = [F(2, 3) ** 12, F(3, 250007), F(1, 1500), F(7, 999983), F(1, 3) ** 9, F(5, 1048573)]
    shapes = [[["A", "B"], ["C"]], [["A", "B", "C"]], [["A"], ["B", "C", "D"]], [["A", "B"], ["C", "D"]], [["A", "B", "C", "D", "E", "F"]],
              [["A", "B", "C", "D"], ["E"]]]
    n = 0
    for _ in range(40 if tier == "quick" else 400):
        w, shape = rng.choice(weights), rng.choice(shapes)
        b = Ballot(ranking=tuple(frozenset(g) for g in shape), weight=w)
        nlin = math.prod(math.factorial(len(g)) for g in shape)
        want = set(tuple(c for part in parts for c in part) for parts in itertools.product(*[list(itertools.permutations(g)) for g in shape]))
        n += 1
        try:
            with quiet():
                out = expand_tied_ballot(b)
                prof = resolve_profile_ties(PreferenceProfile(ballots=(b,)))
        except Exception as ex:  # noqa
            res.violation("ExpandTies:WideWeights(py):Error", "%s on weight %s, shape %s" % (type(ex).__name__, w, shape), {"weight": str(w), "shape": shape})
            continue
        got = [tuple(next(iter(s)) for s in x.ranking) for x in out]
        if sorted(got) != sorted(want) or any(x.weight != w / nlin for x in out) or sum(x.weight for x in out) != w \
                or prof.total_ballot_wt != w:
            res.violation("ExpandTies:WideWeights(py)", "expanding a tied ballot of weight %s (%d linear orders): the parts are not the %d orders at weight w/%d each "
                          "adding up to w (sum %s)" % (w, nlin, nlin, nlin, sum(x.weight for x in out)), {"weight": str(w), "shape": shape})
    res.notes["python_compared"] = n
    res.notes["python_compared_note"] = ("expand_tied_ballot on weights whose share has a denominator above TLC's exact range is compared with the exact-fraction "
                                         "reading of ProfileADT!ExpandTies (each order once, weight w / prod k!)")


def run(tier, seed, replay=None):
    from .. import adt
    res = Result(PID, tier, seed)
    scratch(PID)
    res.rule = ("role 1: MC_ProfileADT -- on every ballot sequence of <=3 ballots over 8 contents x weights {1,2,1/2}: removing any subset of "
                "{A,B,Z} conserves weight per image content and loses exactly the weight of emptied ballots, never mentions a removed name, keeps "
                "above/tied/below of survivors, commutes with condensing; de-duplication / add-missing keep totals; tie expansion lists every linear "
                "order once and preserves first-place, Borda and pairwise totals.  role 2: recorded calls of remove_cand (EVERY single tied / partial / "
                "scored ballot of 3 candidates x EVERY removal subset of {A,B,C,Z} x profile / tuple / single-ballot form x condense x "
                "leave_zero_weight_ballots in the thorough tier, a seeded third of it in the quick tier; seeded profiles of 2-5 ballots over 3-4 "
                "candidates with collisions after removal), add_missing_cands (candidates without votes), expand_tied_ballot (every weak partial "
                "ranking of 3 [and 4] candidates), resolve_profile_ties, remove_noncands (every untied ballot x every removal set; repeated "
                "candidates), deduplicate_profiles (every sequence of <=4 names over 3 candidates), remove_empty_ballots, clean_profile (6 cleaning "
                "functions), merge_ballots (voter sets), and a slice through awkward names / split weights / real pandas; each compared with "
                "ProfileADT.tla by TLC.  non-trivial = distinct calls in which a listed candidate is removed, a tie is expanded, a candidate is "
                "missing, a candidate is repeated, an empty ballot stands next to a ranked one, or several ballots are cleaned / merged")
    if replay:
        calls = [json.load(open(replay))["replay"]["input"]]
    else:
        r = run_tlc("MC_ProfileADT", c11.mc_cfg(3, 0, MC_INV), os.path.join(OUT, PID, "mc_single"))
        res.add_tlc("MC_ProfileADT single profile <=3 ballots, 8 contents x 3 weights", r)
        if r["hard"]:
            raise Machinery("TLC failed on MC_ProfileADT: " + tlc_error_excerpt(r["out"]))
        if r["violated"]:
            res.violation("spec:MC_ProfileADT:%s" % r["violated"], "the value model violates %s" % r["violated"], {})
        r = run_tlc("MC_ProfileADT", c11.mc_cfg(2, 0, ["ControlOneOrderPreservesFpv"]), os.path.join(OUT, PID, "mc_control"), workers=4)
        if r["hard"] or not r["violated"]:
            raise Machinery("negative control ControlOneOrderPreservesFpv was not violated")
        res.notes["mc_negative_controls_violated"] = {"ControlOneOrderPreservesFpv": True}
        calls = corpus(tier, seed)
    res.evaluations = len(calls)
    with fork_pool(16) as pool:
        traces = [t for ts in pool.imap_unordered(adt.c12_work, calls, chunksize=32) for t in ts]
    traces.sort(key=adt.trace_key)
    for t in traces:
        k = nontrivial_key(t)
        if k:
            res.nontrivial.add(k)
    judge_calls(res, PID, "ProfileADTTrace", traces, sig_of=sig_of, what="ballot-editing utility disagrees with the value model")
    if not replay:
        wide_expand(res, tier, seed)
    ops = {}
    for t in traces:
        ops[t["op"]] = ops.get(t["op"], 0) + 1
    res.notes["calls_by_op"] = ops
    res.notes["skip_known"] = os.environ.get("C12_SKIP_KNOWN") == "1"
    res.exhaustive = False
    return res
