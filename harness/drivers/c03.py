"""C03 -- surplus transfers and STV rounds conserve votes."""
import random, os, json, multiprocessing as mp
from fractions import Fraction as F
from ..common import Result, OUT, scratch, run_tlc, Machinery, tlc_error_excerpt, rat, quiet
from ..common import fork_pool
from .. import domains as D
from . import elect as EL
from . import c02
from ..calltrace import judge_calls

PID = "C03"
TR_INV = ["FractionalConserves", "RandomIsUniform", "PickPredicateAgrees"]
MC = {"quick": [dict(family="droop", max_ballots=2, max_w=2)], "thorough": [dict(family="stv", max_ballots=2, max_w=2, with_half=True)]}


def call_work(inp):
    """one transfer call -> one trace per distinct outcome, with the exact probability of that outcome"""
    from .. import elections as E
    from .. import rng
    from ..rng import EX, TooManyPaths
    from ..common import bag_json
    import votekit.elections as VE
    from votekit import PreferenceProfile
    E.fast_df(True)
    rng.install()
    f = VE.fractional_transfer if inp["op"] == "fractional" else VE.random_transfer
    prof = E.build_profile(inp["cands"], inp["ballots"])
    base = {"op": inp["op"], "cands": inp["cands"], "winner": inp["winner"], "tally": inp["tally"], "thr": inp["thr"],
            "bag": E._abstract_bag(inp["ballots"]), "result": [], "error": "", "p": [0, 0], "_inp": inp,
            "nonint": any(b["w"][0] % b["w"][1] != 0 for b in inp["ballots"]), "big": bool(inp.get("big"))}

    def call():
        try:
            with quiet():
                tl = F(*inp["tally"])
                if inp.get("tally_kind") in ("int", "float") and tl.denominator == 1:
                    tl = int(tl) if inp["tally_kind"] == "int" else float(tl)      # the documented type of the tally is Fraction or float
                out = f(inp["winner"], tl, list(prof.ballots) if inp.get("aslist") else prof.ballots, inp["thr"])
            return json.dumps(bag_json(PreferenceProfile(ballots=tuple(out)))), ""
        except Exception as ex:  # noqa
            return "[]", type(ex).__name__

    law = {}
    try:
        if inp.get("big"):
            raise TooManyPaths("pile of thousands of votes: one seeded real draw, judged by the enumeration-free predicate IsRandomResult")
        for (res, err), pr, log in EX.runs(call, max_paths=400):
            law[(res, err)] = law.get((res, err), 0) + pr
        known = True
    except (TooManyPaths, rng.ReplayDiverged):
        rng.seed_real(inp.get("seed", 0))
        law = {call(): 0}
        known = False
    if inp.get("tiny_nonint"):
        # weights an integer plus 1e-10 .. a half on top of 2e9: outside TLC's range, and not needed by it -- for a non-integer pile the
        # specification's verdict depends only on `nonint` (computed above from the exact inputs) and on the class of the outcome
        base["bag"], base["tally"] = [], [1, 1]
    out = []
    for (res, err), pr in sorted(law.items()):
        t = dict(base)
        t["result"], t["error"] = json.loads(res), err
        t["p"] = rat(pr) if known and max(rat(pr)) <= 20000 else [0, 0]
        out.append(t)
    return out


def call_corpus(tier, seed):
    rng = random.Random(300 + seed)
    q = tier == "quick"
    inputs = []

    def add(cands, ballots, op):
        # every winner with a positive tally, every threshold 1..tally (a few of them)
        for w in cands:
            tally = sum((F(*b["w"]) for b in ballots if b["r"][0] == [w]), F(0))
            if tally < 1:
                continue
            ths = list(range(1, int(tally) + 1))
            for thr in (ths if len(ths) <= 3 else rng.sample(ths, 3)):
                inputs.append({"op": op, "cands": cands, "ballots": ballots, "winner": w, "tally": rat(tally), "thr": thr,
                               "aslist": rng.random() < 0.5, "seed": rng.randrange(10**6), "tally_kind": rng.choice(["frac", "frac", "int", "float"])})

    c3 = ["A", "B", "C"]
    rk3 = D.untied_rankings(c3)
    b2 = list(D.bags(rk3, 2, D.INT_W(3)))
    for bag in (rng.sample(b2, 250) if q else b2):
        add(c3, bag, "random")
        add(c3, bag, "fractional")
    b2h = list(D.bags(rk3, 2, D.HALF_W + [[1, 3]]))
    for bag in (rng.sample(b2h, 120) if q else b2h):
        add(c3, bag, "fractional")
    b3 = list(D.bags(rk3, 3, D.INT_W(2)))
    for bag in rng.sample(b3, 150 if q else 3000):
        add(c3, bag, rng.choice(["random", "fractional"]))
    for _ in range(200 if q else 4000):
        nc = rng.randint(4, 5)
        cands = D.ABC[:nc]
        op = rng.choice(["random", "fractional"])
        bag = D.random_bag(rng, cands, 5, rational=0 if op == "random" else 0.4, wmax=3, min_ballots=1)
        # duplicates and order: split some ballots into identical parts
        bl = []
        for b in bag:
            if b["w"][1] == 1 and b["w"][0] >= 2 and rng.random() < 0.5:
                bl += [{"r": b["r"], "w": [1, 1]}, {"r": b["r"], "w": [b["w"][0] - 1, 1]}]
            else:
                bl.append(b)
        rng.shuffle(bl)
        add(cands, bl, op)
    # piles of hundreds to thousands of votes under the random rule (one seeded real draw each; TLC decides membership with the
    # enumeration-free predicate): surplus below, equal to and above the number of transferable votes, exhausted ballots in the pile
    for _ in range(150 if q else 3000):
        nc = rng.randint(3, 4)
        cands = D.ABC[:nc]
        w0 = rng.choice(cands)
        rk = D.untied_rankings(cands)
        lead = [r for r in rk if r[0] == [w0]]
        bl = [{"r": rng.choice(lead), "w": [rng.randint(1, rng.choice([40, 600, 2500, 6000])), 1]} for _ in range(rng.randint(1, 4))]
        bl += [{"r": rng.choice(rk), "w": [rng.randint(1, 3000), 1]} for _ in range(rng.randint(0, 3))]
        rng.shuffle(bl)
        tally = sum(b["w"][0] for b in bl if b["r"][0] == [w0])
        transferable = sum(b["w"][0] for b in bl if b["r"][0] == [w0] and len(b["r"]) > 1)
        surplus = rng.choice([rng.randint(0, tally - 1), max(0, min(tally - 1, transferable + rng.randint(-2, 2))), rng.randint(0, min(tally - 1, 20))])
        inputs.append({"op": "random", "cands": cands, "ballots": bl, "winner": w0, "tally": [tally, 1], "thr": tally - surplus, "aslist": rng.random() < 0.5,
                       "seed": rng.randrange(10**6), "big": True})
    # ... and by the smallest margins: an integer plus 1e-10, plus 1e-15, minus 1e-12
    for _ in range(30 if q else 300):
        eps = rng.choice([F(1, 10**10), F(1, 10**15), F(-1, 10**12)])
        wgt = rng.choice([F(3) + eps, F(1) + abs(eps), F(200) + eps, F(12) + eps])      # (kept small: an accepted pile is expanded into unit ballots)
        bag = [{"r": [["A"], ["B"]], "w": rat(wgt)}, {"r": [["A"], ["C"]], "w": [2, 1]}, {"r": [["B"]], "w": [1, 1]}][:rng.randint(1, 3)]
        inputs.append({"op": "random", "cands": c3, "ballots": bag, "winner": "A", "tally": rat(sum(F(*b["w"]) for b in bag if b["r"][0] == ["A"])),
                       "thr": 1, "seed": 1, "tiny_nonint": True, "big": True})
    # the documented rejection: non-integer weights under the random rule
    for _ in range(20 if q else 200):
        bag = D.random_bag(rng, c3, 3, rational=1.0, wmax=2, min_ballots=1)
        for w in c3:
            inputs.append({"op": "random", "cands": c3, "ballots": bag, "winner": w, "tally": [3, 1], "thr": 1, "seed": 1})
    return inputs


def wide_transfer(res, tier, seed):
    """fractional_transfer on tallies far beyond TLC's exact range (a few thousand to a few million voters, fine-grained rational tallies as they
    arise after an earlier surplus): Transfers!FractionalResult read in exact Python fractions -- every continuing ranking carries exactly
    weight * (tally - threshold) / tally, ballots not led by the winner keep their weight (declared in evidence as python_compared)."""
    from ..common import load_votekit, quiet, bag_json
    load_votekit()
    from votekit import Ballot, PreferenceProfile
    import votekit.elections as VE
    rng = random.Random(3131 + seed)
    cands = ["A", "B", "C", "D"]
    rk = D.untied_rankings(cands)
    n = 0
    for _ in range(150 if tier == "quick" else 3000):
        scale = rng.choice([1009, 10007, 100003, 1000003, 3000017])
        nb = rng.randint(2, 5)
        ballots = []
        for _ in range(nb):
            w = F(rng.randint(1, 9) * scale + rng.randint(0, 50), rng.choice([1, 1, 3, 7, 4000037]))
            ballots.append((rng.choice(rk), w))
        winner = rng.choice(cands)
        tiny = rng.random() < 0.3
        if tiny:
            # a surplus of about one vote out of 10^9 .. 10^13: continuing ballots carry 1e-9 .. 1e-13 of a vote -- still votes
            big = rng.choice([10**9 + 7, 10**10 + 19, 10**12 + 39, 10**13 + 37])
            lead = [r for r in rk if r[0] == [winner]]
            ballots = [(rng.choice(lead), F(big))] + [(rng.choice(lead), F(rng.randint(1, 9), rng.choice([1, 1, 2, 3]))) for _ in range(rng.randint(1, 3))] \
                + [(rng.choice(rk), F(rng.randint(1, 9))) for _ in range(rng.randint(0, 2))]
            rng.shuffle(ballots)
        tally = sum((w for r, w in ballots if r[0] == [winner]), F(0))
        if tally < 2:
            continue
        thr = rng.randint(1, int(tally)) if not tiny else int(tally) - rng.choice([0, 0, 1, 2])
        n += 1
        bl = [Ballot(ranking=tuple(frozenset(p) for p in r), weight=w) for r, w in ballots]
        want = {}
        for r, w in ballots:
            rest = tuple(tuple(p) for p in r if p != [winner])
            if not rest:
                continue
            v = w * (tally - thr) / tally if r[0] == [winner] else w
            if v > 0:
                want[rest] = want.get(rest, F(0)) + v
        try:
            with quiet():
                out = VE.fractional_transfer(winner, tally, bl if rng.random() < 0.5 else tuple(bl), thr)
        except Exception as ex:  # noqa
            res.violation("fractional:WideTallies(py):Error", "%s on a tally of %s" % (type(ex).__name__, tally), {"ballots": [[r, str(w)] for r, w in ballots], "winner": winner, "thr": thr})
            continue
        got = {}
        for b in out:
            k = tuple(tuple(sorted(s)) for s in b.ranking)
            got[k] = got.get(k, F(0)) + b.weight
        if got != want:
            res.violation("fractional:WideTallies(py)", "fractional_transfer on a tally of %s, threshold %d: the returned weights are not weight * (tally - threshold) / tally exactly" % (tally, thr),
                          {"ballots": [[r, str(w)] for r, w in ballots], "winner": winner, "thr": thr})
    res.notes["python_compared"] = n
    res.notes["python_compared_note"] = ("fractional_transfer on tallies beyond TLC's 32-bit exact range is compared with the exact-fraction reading of "
                                         "Transfers!FractionalResult")


def run(tier, seed, replay=None):
    res = Result(PID, tier, seed)
    scratch(PID)
    res.rule = ("role 1: MC_Transfers (every bag of <=3 untied rankings of 3 candidates, every winner, every threshold 1..tally: fractional "
                "result loses exactly threshold + exhausted share, random picks are sub-collections of size min(surplus, transferable) whose "
                "probabilities sum to 1 and give every transferable unit ballot the same inclusion probability) and the Conservation invariant "
                "of the election model; role 2: recorded calls of fractional_transfer / random_transfer (duplicates, exhausted ballots, ballots "
                "not led by the winner; *every* outcome of random.sample enumerated with its exact probability) compared by TLC with "
                "FractionalResult / RandomResults and the hypergeometric label; every validated STV trace is monitored for Conservation. "
                "non-trivial = distinct transfer calls with a positive surplus or an exhausted ballot, plus distinct STV runs with a transfer")
    if replay:
        rp = json.load(open(replay))["replay"]["input"]
        calls, elects = ([rp] if "op" in rp else []), ([rp] if "cfg" in rp else [])
    else:
        cfg = ("CONSTANTS\n Cand = {\"A\",\"B\",\"C\"}\n MaxBallots = %d\n MaxW = 2\nSPECIFICATION Spec\n" % (2 if tier == "quick" else 3)
               + "".join("INVARIANT %s\n" % i for i in TR_INV) + "CHECK_DEADLOCK FALSE\n")
        r = run_tlc("MC_Transfers", cfg, os.path.join(OUT, PID, "mc_transfers"))
        res.add_tlc("MC_Transfers 3c", r)
        if r["hard"]:
            raise Machinery("TLC failed on MC_Transfers: " + tlc_error_excerpt(r["out"]))
        if r["violated"]:
            res.violation("spec:MC_Transfers:%s" % r["violated"], "the transfer definitions violate %s" % r["violated"], {})
        for i, mc in enumerate(MC[tier]):
            EL.model_check(res, PID, mc["family"], ["A", "B", "C"], mc["max_ballots"], mc["max_w"], with_half=mc.get("with_half", False),
                           invariants=["MTypeOK", "MConservation", "MProbSum"], props=["MThresholdFixed"], name="mc%d" % i)
        calls = call_corpus(tier, seed)
        elects = [i for i in c02.corpus(tier, seed, rules=("STV", "IRV"), offset=3030)]
        if tier == "quick":
            elects = elects[::2]
    res.evaluations = len(calls) + len(elects)
    with fork_pool(16) as pool:
        traces = [t for ts in pool.imap_unordered(call_work, calls, chunksize=8) for t in ts]
    traces.sort(key=lambda t: json.dumps({k: v for k, v in t.items() if not k.startswith("_")}, sort_keys=True))
    for t in traces:
        if F(*t["tally"]) > t["thr"] or any(len(b["r"]) == 1 and b["r"][0] == [t["winner"]] for b in t["bag"]):
            res.nontrivial.add(json.dumps([t["op"], t["bag"], t["winner"], t["thr"]]))
    def small_exact(t):
        """a fractional transfer of a few small rational ballots with an exact (Fraction) tally: every correct weight is a small rational,
        so a logged value outside TLC's range is an *inexact* one (e.g. a float that slipped into the transfer value)"""
        nums = [x for b in t["bag"] for x in b["w"]] + list(t["tally"])
        return t["op"] == "fractional" and not t.get("big") and t["_inp"].get("tally_kind", "frac") == "frac" and max(nums) <= 30 \
            and max([b["w"][1] for b in t["bag"]] + [t["tally"][1]]) <= 4
    judge_calls(res, PID, "TransferTrace", traces, what="transfer call disagrees with the statement", inexact_is_violation=small_exact)
    if not replay:
        wide_transfer(res, tier, seed)
    etr = EL.record_corpus(elects)
    verdicts, byid = EL.judge(res, PID, etr, os.path.join(OUT, PID, "traces"), nontrivial=lambda t: len(t["events"]) >= 2)
    from ..common import in_arith_range
    EL.wide_stv(res, PID, tier, seed, verdicts, byid, rules=("STV", "STV", "IRV"), replay_traces=[t for t in etr if not in_arith_range(t)] if replay else None)
    res.notes["transfer_calls"] = len(calls)
    res.notes["transfer_traces"] = len(traces)
    res.notes["elections"] = len(elects)
    return res
