"""C09 -- round-by-round queries on a finished election are consistent and pure."""
import random, os, json, multiprocessing as mp
from ..common import Result, OUT, scratch, Machinery
from ..common import fork_pool
from .. import domains as D
from . import elect as EL

PID = "C09"
FAMILIES = ["stv", "oneshot", "composite", "tiered", "dictators", "veto"]
MC = {"quick": [dict(family="droop", max_ballots=2, max_w=1)], "thorough": [dict(family="stv", max_ballots=2, max_w=2)]}


def work(inp):
    from .. import elections as E
    from .. import rng
    E.fast_df(not inp.get("slow"))
    rng.install()
    rng.seed_real(inp["seed"])
    cands = inp["cands"]
    names = inp.get("names") or {c: c for c in cands}
    inv = {v: k for k, v in names.items()}
    hdr, events, e = E.run_once(inp["cfg"], cands, inp["ballots"], names, inp.get("cand_order"), keep_obj=True)
    if e is None or any(ev["ev"] != "Round" for ev in events):
        return []          # not a finished election: outside C09 (C01 speaks about it)
    if inp["cfg"]["rule"] == "TopTwo":
        for ev in events:
            pass
    L = len(e.election_states)
    r = random.Random(inp["seed"])
    hist = []
    for _ in range(r.randint(4, 9)):
        name = r.choice(E.QUERY_NAMES)
        idx = r.choice(list(range(-(L + 2), L + 2)) + [-1, 0, L - 1, -L])
        hist.append((name, 0 if name == "len" else idx))
    # the profile that left the last round, the last but one, and the first, are always asked for (in a random order, in both index forms)
    tail = [("get_profile", -1), ("get_step", L - 1), ("get_profile", max(0, L - 2)), ("get_step", -L), ("get_profile", 1 if L > 1 else 0)]
    r.shuffle(tail)
    hist += tail[:r.randint(2, 5)]
    t = dict(hdr)
    t["events"] = events + E.run_queries(e, hist, inv)
    t["_inp"] = inp
    t["_info"] = {"explored": False}
    return [t]


def corpus(tier, seed):
    rng = random.Random(900 + seed)
    q = tier == "quick"
    cands = ["A", "B", "C"]
    inputs = []
    for fam in FAMILIES:
        inputs += EL.family_inputs(rng, fam, cands, 2, D.INT_W(2), per_bag=(1 if fam in ("stv", "oneshot", "composite") else 2) if q else 8)
        inputs += EL.family_sampled(rng, fam, 150 if q else 3000, (4, 5), 6)
    # counts that end by default election (several candidates take the last seats together without a quota): short ballots, m >= 2
    for fam in ("stv", "composite"):
        for _ in range(120 if q else 2500):
            nc = rng.randint(3, 5)
            cs = D.ABC[:nc]
            cfgs = [c for c in EL.family_configs(fam, nc) if c["m"] >= 2 and c["xfer"] != "random" and c["rule"] != "TopTwo"]
            bag = [{"r": [[c] for c in rng.sample(cs, rng.choice([1, 1, 1, 2]))], "w": [rng.randint(1, 4), 1]} for _ in range(rng.randint(2, 6))]
            inputs.append({"cfg": rng.choice(cfgs), "cands": cs, "ballots": bag, "mode": "explore"})
    for i in inputs:
        i["seed"] = rng.randrange(10**6)
    for inp in rng.sample(inputs, 100 if q else 1000):
        s = dict(inp)
        s["slow"] = True
        c = D.concretisations(rng, inp["cands"], inp["ballots"], 1)[0]
        s["names"], s["cand_order"] = c["names"], c["cand_order"]
        inputs.append(s)
    return inputs


def run(tier, seed, replay=None):
    res = Result(PID, tier, seed)
    scratch(PID)
    res.rule = ("finished elections of every rule (exhaustive 3-candidate slices + sampled 4-5 candidate profiles) x a seeded random history of "
                "4-9 calls of get_profile/get_step/get_elected/get_eliminated/get_remaining/get_ranking/get_status_df/len with indices in "
                "-(L+2)..L+1; the election is first validated round by round (ElectionTrace), then every answer is compared by TLC with the "
                "answer the recorded rounds imply (QueryClause: cumulative elected/eliminated/ranking/status, negative indices, IndexError "
                "out of range; profile candidates = remaining, re-scoring = recorded tallies, profile = the profile that left the round, for "
                "rounds reached without a random choice), each call must leave election_states unchanged and a final snapshot must equal the "
                "recorded rounds. non-trivial = distinct (election, history) pairs with at least one in-range profile query or negative index")
    if replay:
        inputs = [json.load(open(replay))["replay"]["input"]]
    else:
        for i, mc in enumerate(MC[tier]):
            EL.model_check(res, PID, mc["family"], ["A", "B", "C"], mc["max_ballots"], mc["max_w"], invariants=["MTypeOK", "MPartition"],
                           props=["MMonotone"], name="mc%d" % i)
        inputs = corpus(tier, seed)
    res.evaluations = len(inputs)
    with fork_pool(16) as pool:
        traces = [t for ts in pool.imap_unordered(work, inputs, chunksize=16) for t in ts]
    traces.sort(key=lambda t: json.dumps({k: v for k, v in t.items() if not k.startswith("_")}, sort_keys=True))
    res.notes["finished_elections"] = len(traces)

    def nontriv(t):
        return any(e["ev"] == "Query" and (e["r"] < 0 or e["name"] in ("get_profile", "get_step")) for e in t["events"])
    verdicts, byid = EL.etrace.validate(traces, os.path.join(OUT, PID, "traces"), monitors=["MonPartition"], exact_expected=None)[0::2]
    return finish_queries(res, verdicts, byid, traces, nontriv)


def finish_queries(res, verdicts, byid, traces, nontriv):
    seen = {}
    res.traces += len(byid)
    res.skipped_arith += len(traces) - len(byid)
    for tid, v in verdicts.items():
        t = byid[tid]
        if nontriv(t):
            res.nontrivial.add(json.dumps([t["cfg"], t["prof0"], [(e["name"], e["r"]) for e in t["events"] if e["ev"] == "Query"]]))
        for rec in v["rejects"] + ([v["final"]] if v["final"]["clause"] else []) + v["monitors"]:
            cl = rec["clause"]
            seen[cl] = seen.get(cl, 0) + 1
            if not cl.startswith("Query:"):
                continue        # the election itself was rejected: C01/C02/... speak about that, not C09
            ev = t["events"][rec["l"]] if rec["l"] < len(t["events"]) else {}
            sig = "%s:%s:%s" % (t["cfg"]["rule"], cl, ev.get("name", "snapshot"))
            res.violation(sig, "query %s(%s) on a finished %s election: clause %s" % (ev.get("name"), ev.get("r"), t["cfg"]["rule"], cl),
                          {"input": t["_inp"], "trace": {k: x for k, x in t.items() if not k.startswith("_")}, "verdict": rec})
        if not v["rejects"] and not v["final"]["clause"]:
            res.sample({"cfg": t["cfg"], "prof0": t["prof0"], "queries": [e for e in t["events"] if e["ev"] == "Query"][:3]}, cap=2)
    res.notes["verdict_clauses_seen"] = seen
    return res
