"""C13 -- composite and alias rules equal the composition they are documented to be."""
import random
from . import elect as EL
from . import c02
from .. import domains as D

PID = "C13"
MC = {"quick": [dict(family="composite", max_ballots=2, max_w=2)],
      "thorough": [dict(family="composite", max_ballots=3, max_w=2), dict(family="stv", max_ballots=2, max_w=2)]}


def corpus(tier, seed):
    rng = random.Random(1300 + seed)
    cands = ["A", "B", "C"]
    q = tier == "quick"
    inputs = EL.family_inputs(rng, "composite", cands, 2, D.INT_W(2), per_bag=5 if q else None)
    inputs += EL.family_inputs(rng, "composite", cands, 1, D.HALF_W, per_bag=6 if q else None)
    inputs += EL.family_sampled(rng, "composite", 400 if q else 5000, (4, 6), 8)
    # aliases: IRV, SequentialRCV (as STV with the full-weight transfer), SNTV
    inputs += [i for i in c02.corpus(tier, seed, rules=("SequentialRCV", "IRV"), offset=1313) if not i.get("slow")][: 1500 if q else 20000]
    sn = [i for i in EL.family_inputs(rng, "oneshot", cands, 2, D.INT_W(2), per_bag=None) if i["cfg"]["rule"] == "SNTV"]
    inputs += rng.sample(sn, min(len(sn), 600 if q else 6000))
    inputs += EL.partial_tie_inputs(rng, "composite", 60 if q else 1200)
    inputs += EL.partial_tie_inputs(rng, "oneshot", 30 if q else 600, rules=("SNTV",))
    return EL.add_slow_slice(rng, inputs, 100 if q else 1000)


def run(tier, seed, replay=None):
    return EL.standard_run(
        PID, tier, seed, replay, MC, corpus, nontrivial=lambda t: len(t["events"]) >= 1,
        role3={"quick": [dict(family="composite", max_ballots=2, max_w=1)], "thorough": [dict(family="composite", max_ballots=2, max_w=2)]},
        repo_test_rules=("IRV", "SNTV", "SequentialRCV", "TopTwo", "Alaska"), wide={"rules": ("IRV", "SequentialRCV")},
        rule_text="the specification *defines* IRV as STV with one seat, SequentialRCV as STV with the full-weight transfer, SNTV as "
                  "Plurality, TopTwo and Alaska as the documented compositions (cut by first-place votes, remove the others from every "
                  "ballot, then Plurality(1) / STV(m2) on the reduced profile, rounds renumbered); role 1: TLC exhaustive on the bounded "
                  "composite model; role 2: every recorded round of the real IRV/SNTV/SequentialRCV/TopTwo/Alaska must be the step the "
                  "composition takes (all random branches enumerated). non-trivial = distinct inputs with a recorded round")
