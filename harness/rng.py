"""Scripted random source and systematic explorer.

VoteKit draws from `random` and `numpy.random` at a fixed set of call sites.  `install()`
replaces the *names* `random` / `np` inside the votekit modules (attribute replacement in this
process only -- no source change) by proxies.  In "explore" mode every primitive call becomes a
labelled choice point whose outcomes carry their exact probability (the arguments of a primitive
determine its law), and `Explorer.runs(f)` enumerates all runs of f depth first.  In "real" mode
the proxies forward to the real generators (seeded by the caller).
"""
import itertools, random as _real_random
from fractions import Fraction as F
import numpy as _real_np


class TooManyPaths(BaseException):
    pass


class ReplayDiverged(BaseException):
    pass


class Explorer:
    def __init__(self):
        self.active = False
        self.script, self.pos, self.arity, self.prob, self.log = [], 0, [], F(1), []
        self.max_outcomes = 5040

    def choose(self, site, outcomes):
        """one labelled choice point; outcomes = [(value, probability)]"""
        outcomes = [o for o in outcomes if o[1] > 0]
        if len(outcomes) > self.max_outcomes:
            raise TooManyPaths(site)
        if self.pos == len(self.script):
            self.script.append(0)
        if self.pos == len(self.arity):
            self.arity.append(len(outcomes))
        else:
            self.arity[self.pos] = len(outcomes)
        i = self.script[self.pos]
        if i >= len(outcomes):
            raise ReplayDiverged("non-deterministic replay: script index out of range at " + site)
        v, p = outcomes[i]
        self.pos += 1
        self.prob *= F(p)
        self.log.append((site, i, F(p)))
        return v

    def runs(self, f, max_paths=None):
        """all runs of f(), depth first. yields (result, path probability, log)"""
        self.script = []
        n = 0
        self.active = True
        try:
            while True:
                self.pos, self.arity, self.prob, self.log = 0, [], F(1), []
                r = f()
                yield r, self.prob, list(self.log)
                n += 1
                if max_paths is not None and n >= max_paths:
                    # is anything left?
                    s = self.script[: self.pos]
                    while s and s[-1] + 1 >= self.arity[len(s) - 1]:
                        s.pop()
                    if s:
                        raise TooManyPaths("more than %d paths" % max_paths)
                    return
                self.script = self.script[: self.pos]
                while self.script and self.script[-1] + 1 >= self.arity[len(self.script) - 1]:
                    self.script.pop()
                if not self.script:
                    return
                self.script[-1] += 1
        finally:
            self.active = False

    def replay(self, f, script):
        self.script = list(script)
        self.pos, self.arity, self.prob, self.log = 0, [], F(1), []
        self.active = True
        try:
            return f(), self.prob, list(self.log)
        finally:
            self.active = False


EX = Explorer()


class SymU:
    """a uniform(0,1) draw known only through the comparisons made with it"""

    def __init__(s, lo=F(0), hi=F(1)):
        s.lo, s.hi = lo, hi

    def _le(s, x):
        x = F(x) if not isinstance(x, float) else F(x).limit_denominator(10**9)
        if x >= s.hi:
            return True
        if x <= s.lo:
            return False
        p = (x - s.lo) / (s.hi - s.lo)
        r = EX.choose("u<=%s" % x, [(True, p), (False, 1 - p)])
        if r:
            s.hi = x
        else:
            s.lo = x
        return r

    def __le__(s, x): return s._le(x)
    def __lt__(s, x): return s._le(x)
    def __gt__(s, x): return not s._le(x)
    def __ge__(s, x): return not s._le(x)

    # affine images a*U + b (code that rescales the draw before comparing it): comparisons are mapped back onto U
    def __mul__(s, k): return _Aff(s, _q(k), F(0))
    __rmul__ = __mul__
    def __truediv__(s, k): return _Aff(s, 1 / _q(k), F(0))
    def __add__(s, k): return _Aff(s, F(1), _q(k))
    __radd__ = __add__
    def __sub__(s, k): return _Aff(s, F(1), -_q(k))
    def __rsub__(s, k): return _Aff(s, F(-1), _q(k))
    def __neg__(s): return _Aff(s, F(-1), F(0))


def _q(x):
    return F(x) if not isinstance(x, float) else F(x).limit_denominator(10**9)


class _Aff:
    """a * U + b for a symbolic uniform U (a != 0)"""

    def __init__(s, u, a, b):
        if a == 0:
            raise TypeError("a symbolic uniform multiplied by zero is a constant; not supported by the scripted source")
        s.u, s.a, s.b = u, a, b

    def _le(s, x):
        t = (_q(x) - s.b) / s.a
        return s.u._le(t) if s.a > 0 else not s.u._le(t)

    def __le__(s, x): return s._le(x)
    def __lt__(s, x): return s._le(x)
    def __gt__(s, x): return not s._le(x)
    def __ge__(s, x): return not s._le(x)
    def __mul__(s, k): return _Aff(s.u, s.a * _q(k), s.b * _q(k))
    __rmul__ = __mul__
    def __truediv__(s, k): return _Aff(s.u, s.a / _q(k), s.b / _q(k))
    def __add__(s, k): return _Aff(s.u, s.a, s.b + _q(k))
    __radd__ = __add__
    def __sub__(s, k): return _Aff(s.u, s.a, s.b - _q(k))
    def __rsub__(s, k): return _Aff(s.u, -s.a, _q(k) - s.b)
    def __neg__(s): return _Aff(s.u, -s.a, -s.b)


def _key(x):
    return repr(x)


class FakeRandom:
    """stands in for the `random` module inside votekit modules"""

    def __getattr__(self, n):
        return getattr(_real_random, n)

    def sample(self, pop, k):
        if not EX.active:
            return _real_random.sample(pop, k)
        pop = list(pop)
        if k > len(pop) or k < 0:
            raise ValueError("Sample larger than population or is negative")
        # identical elements are interchangeable: enumerate distinct value sequences, each with its
        # exact probability under uniform sampling without replacement
        keys = {}
        for i in sorted(range(len(pop)), key=lambda i: _key(pop[i])):
            keys.setdefault(_key(pop[i]), []).append(i)
        names = sorted(keys)
        if len(names) ** k > EX.max_outcomes * 4:
            raise TooManyPaths("random.sample")
        outs = []

        def rec(seq, counts, left, pr):
            if len(seq) == k:
                used = {n: 0 for n in names}
                idx = []
                for n in seq:
                    idx.append(keys[n][used[n]])
                    used[n] += 1
                outs.append((tuple(idx), pr))
                return
            for n in names:
                if counts[n] > 0:
                    c2 = dict(counts)
                    c2[n] -= 1
                    rec(seq + [n], c2, left - 1, pr * F(counts[n], left))

        rec([], {n: len(v) for n, v in keys.items()}, len(pop), F(1))
        idx = EX.choose("random.sample", outs)
        return [pop[i] for i in idx]

    def choices(self, pop, weights=None, k=1):
        if not EX.active:
            return _real_random.choices(pop, weights=weights, k=k)
        pop = list(pop)
        if not pop:
            raise IndexError("Cannot choose from an empty sequence")
        weights = [1] * len(pop) if weights is None else list(weights)
        tot = sum(F(w) for w in weights)
        out = []
        for _ in range(k):
            out.append(EX.choose("random.choices", [(i, F(w) / tot) for i, w in enumerate(weights)]))
        return [pop[i] for i in out]

    def uniform(self, a, b):
        if not EX.active:
            return _real_random.uniform(a, b)
        assert (a, b) == (0, 1)
        return SymU()

    def randrange(self, start, stop=None, step=1):
        if not EX.active:
            return _real_random.randrange(start, stop, step) if stop is not None else _real_random.randrange(start)
        r = range(start) if stop is None else range(start, stop, step)
        if len(r) == 0:
            raise ValueError("empty range for randrange()")
        if len(r) > EX.max_outcomes:
            raise TooManyPaths("random.randrange")
        return EX.choose("random.randrange", [(v, F(1, len(r))) for v in r])

    def randint(self, a, b):
        return self.randrange(a, b + 1)

    def choice(self, seq):
        if not EX.active:
            return _real_random.choice(seq)
        seq = list(seq)
        if not seq:
            raise IndexError("Cannot choose from an empty sequence")
        return seq[EX.choose("random.choice", [(i, F(1, len(seq))) for i in range(len(seq))])]

    def random(self):
        if not EX.active:
            return _real_random.random()
        return SymU()

    def shuffle(self, lst):
        if not EX.active:
            return _real_random.shuffle(lst)
        n = len(lst)
        if n > 7:
            raise TooManyPaths("random.shuffle")
        perms = list(itertools.permutations(range(n)))
        idx = EX.choose("random.shuffle", [(p, F(1, len(perms))) for p in perms])
        lst[:] = [lst[i] for i in idx]


def _frac(x):
    return F(float(x)).limit_denominator(10**6)


class FakeNpRandom:
    def __getattr__(self, n):
        return getattr(_real_np.random, n)

    def choice(self, a, size=None, replace=True, p=None):
        if not EX.active:
            return _real_np.random.choice(a, size=size, replace=replace, p=p)
        pop = list(range(a)) if isinstance(a, (int, _real_np.integer)) else list(a)
        if p is None:
            pr = [F(1, len(pop))] * len(pop)
        else:
            pr = [_frac(x) for x in p]
            s = sum(pr)
            if s == 0 or any(x != x for x in [float(y) for y in p]):
                raise ValueError("probabilities contain NaN or sum to zero")
            pr = [x / s for x in pr]
        if size is None:
            i = EX.choose("np.choice", [(i, q) for i, q in enumerate(pr)])
            # type fidelity: numpy indexes the *array* made of `a`, so the caller gets a numpy scalar (numpy.str_, numpy.int64), not the
            # Python object that was put in
            return (_real_np.arange(a) if isinstance(a, (int, _real_np.integer)) else _real_np.array(a))[i]
        size = int(size)
        if replace:
            idx = [EX.choose("np.choice", [(i, q) for i, q in enumerate(pr)]) for _ in range(size)]
            return _real_np.array([pop[i] for i in idx])
        if size > len([q for q in pr if q > 0]):
            raise ValueError("Fewer non-zero entries in p than size")
        # successive sampling without replacement, position by position
        idx, rem, left = [], F(1), list(range(len(pop)))
        for _ in range(size):
            i = EX.choose("np.choice.norep", [(i, pr[i] / rem) for i in left])
            idx.append(i)
            left.remove(i)
            rem -= pr[i]
        return _real_np.array([pop[i] for i in idx])

    def shuffle(self, lst):
        if not EX.active:
            return _real_np.random.shuffle(lst)
        n = len(lst)
        if n > 7:
            raise TooManyPaths("np.shuffle")
        perms = list(itertools.permutations(range(n)))
        idx = EX.choose("np.shuffle", [(p, F(1, len(perms))) for p in perms])
        vals = [lst[i] for i in idx]
        for i, v in enumerate(vals):
            lst[i] = v

    def random(self, size=None):
        if not EX.active:
            return _real_np.random.random(size)
        if size is None:
            return SymU()
        return [SymU() for _ in range(int(size))]

    def uniform(self, low=0.0, high=1.0, size=None):
        if not EX.active:
            return _real_np.random.uniform(low, high, size)
        assert (low, high) == (0.0, 1.0) or (low, high) == (0, 1)
        if size is None:
            return SymU()
        return [SymU() for _ in range(int(size))]


class FakeNp:
    random = FakeNpRandom()

    def __getattr__(self, n):
        return getattr(_real_np, n)


FR, FNP = FakeRandom(), FakeNp()
_installed = False


def install():
    """replace `random` / `np` inside the votekit modules that draw random numbers"""
    global _installed
    if _installed:
        return
    import votekit.utils as vu
    import votekit.elections.transfers as vt
    import votekit.elections.election_types.ranking.random_dictator as rd
    import votekit.elections.election_types.ranking.boosted_random_dictator as brd
    import votekit.elections.election_types.ranking.plurality_veto as pv
    vu.random = FR
    vt.random = FR
    rd.random = FR
    brd.random = FR
    brd.np = FNP
    pv.np = FNP
    try:
        import votekit.ballot_generator as bg
        bg.np = FNP
        bg.random = FR
    except Exception:
        pass
    _installed = True


def seed_real(seed):
    _real_random.seed(seed)
    _real_np.random.seed(seed % (2**32))
