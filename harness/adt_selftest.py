"""Binding demonstration for spec/ProfileADTTrace.tla (C11 / C12).

    cd /verif && /venv/bin/python -m harness.adt_selftest

Records one real call per operation, checks that the trace specification accepts every recorded trace, then corrupts
ONE logged field of each accepted trace (a weight, the order of two positions, a derived field, a boolean, a stored
numerator, a re-inserted removed candidate ...) and shows that the specification rejects each corrupted trace and names
the clause.  Exit 0 iff every original is accepted and every corruption is rejected.
"""
import copy, json, os, sys
from .common import OUT, scratch, Result
from .calltrace import judge_calls
from . import adt

A, B, Cc = ["A"], ["B"], ["C"]


def originals():
    u = {"r": [A, B], "s": [], "w": [1, 1]}
    s = {"r": [A, B], "s": [["A", [2, 1]]], "w": [1, 2]}
    v = {"r": [B], "s": [], "w": [2, 1]}
    tie = {"r": [["A", "B"], Cc], "s": [], "w": [3, 1]}
    c11 = [
        {"op": "ballot", "exact": [{"k": "float", "c": "", "p": 1, "q": 3}, {"k": "float", "c": "A", "p": 7, "q": 10}, {"k": "int", "c": "B", "p": 0, "q": 1}]},
        {"op": "immutable", "what": "ballot", "ballots": [s]},
        {"op": "profile", "ballots": [u, v, v], "candlist": ["B", "A", "Q"]},
        {"op": "condense", "orders": [[s, v, s, v], [v, v, s, s]]},
        {"op": "eq", "L": [v, v, s], "R": [s, dict(v, w=[4, 1])]},
        {"op": "add", "L": [v, s], "R": [s]},
        {"op": "dicts", "orders": [[s, v, s]]},
    ]
    c12 = [
        {"op": "remove_cand", "ballots": [dict(tie, s=[["A", [1, 1]], ["C", [1, 1]]]), v], "x": ["A"], "form": "profile", "condense": True, "lzw": False},
        {"op": "remove_cand", "ballots": [tie], "x": ["B", "Z"], "form": "ballot", "condense": False, "lzw": True},
        {"op": "add_missing", "ballots": [u, v], "candlist": ["A", "B", "C", "Q"]},
        {"op": "expand_ballot", "ballots": [tie], "cands": ["A", "B", "C"]},
        {"op": "resolve_ties", "ballots": [tie, u], "cands": ["A", "B", "C"]},
        {"op": "remove_noncands", "ballots": [{"r": [A, B, Cc], "s": [], "w": [1, 1]}, {"r": [B, Cc], "s": [], "w": [1, 2]}], "x": ["A"], "cands": ["A", "B", "C"]},
        {"op": "dedup", "ballots": [{"r": [A, B, A, Cc], "s": [], "w": [2, 1]}], "cands": ["A", "B", "C"]},
        {"op": "remove_empty", "ballots": [u, {"r": [], "s": [], "w": [1, 1]}], "keep": True, "cands": ["A", "B"]},
        {"op": "clean_profile", "ballots": [u, v], "cleaner": "first", "cands": ["A", "B"]},
        {"op": "merge", "ballots": [dict(u, vs=["v1"]), dict(u, vs=["v2"], w=[1, 2])], "cands": ["A", "B"]},
    ]
    tr = []
    for i in c11:
        tr += adt.c11_work(i)
    for i in c12:
        tr += adt.c12_work(i)
    return tr


def corrupt(t):
    """one corrupted copy of an accepted trace: (description, trace)"""
    c = copy.deepcopy(t)
    op = t["op"]
    if op == "ballot":
        c["stored"][0]["n"] += 1
        return "stored weight numerator + 1", c
    if op == "immutable":
        c["bools"][0] = False
        return "first 'assignment raised' flag flipped", c
    if op == "profile":
        c["outs"][0]["tw"] = [c["outs"][0]["tw"][0] + 1, c["outs"][0]["tw"][1]]
        return "total_ballot_wt + 1", c
    if op in ("condense", "dicts", "add", "remove_cand", "add_missing", "resolve_ties", "remove_noncands", "clean_profile", "remove_empty", "merge"):
        b = c["outs"][0]["bl"][0]
        b["w"] = [b["w"][0] + b["w"][1], b["w"][1]]
        return "weight of the first returned ballot + 1", c
    if op == "eq":
        c["bools"] = [not x for x in c["bools"]]
        return "answers of == / != negated", c
    if op == "expand_ballot":
        c["outs"][0]["bl"][0]["r"] = c["outs"][0]["bl"][1]["r"]
        return "one linear order listed twice, another missing", c
    if op == "dedup":
        c["outs"][0]["bl"][0]["r"] = list(reversed(c["outs"][0]["bl"][0]["r"]))
        return "positions of the returned ranking reversed", c
    raise ValueError(op)


def extra_corruptions(tr):
    out = []
    for t in tr:
        if t["op"] == "remove_cand" and t["form"] == "profile":
            c = copy.deepcopy(t)
            c["outs"][0]["bl"][0]["r"][0] = sorted(c["outs"][0]["bl"][0]["r"][0] + ["A"])
            out.append(("removed candidate re-inserted into a returned ranking", c))
            c = copy.deepcopy(t)
            c["x"] = ["B"]
            out.append(("logged removal set changed from A to B", c))
        if t["op"] == "condense":
            c = copy.deepcopy(t)
            c["outs"][1]["bl"] = list(reversed(c["outs"][1]["bl"]))[:1] + c["outs"][1]["bl"][:1]
            c["outs"][1]["bl"][0]["s"] = []
            out.append(("result of the second ballot order lost the scores of one ballot", c))
    return out


def main():
    scratch("adt_selftest")
    tr = originals()
    res = Result("adt_selftest", "quick", 0)
    v, byid = judge_calls(res, "adt_selftest", "ProfileADTTrace", [copy.deepcopy(t) for t in tr], sig_of=lambda t, r: r["clause"],
                          workdir=os.path.join(OUT, "adt_selftest", "orig"))
    ok = True
    for tid, x in sorted(v.items()):
        cl = x["final"]["clause"]
        print("original  %-16s -> %s" % (byid[tid]["op"], "accepted" if cl == "" else "REJECTED " + cl))
        ok &= cl == ""
    cor = [corrupt(t) for t in tr] + extra_corruptions(tr)
    res2 = Result("adt_selftest", "quick", 0)
    v2, byid2 = judge_calls(res2, "adt_selftest", "ProfileADTTrace", [c for _, c in cor], sig_of=lambda t, r: r["clause"],
                            workdir=os.path.join(OUT, "adt_selftest", "corrupt"))
    desc = {id(c): d for d, c in cor}
    for tid, x in sorted(v2.items()):
        cl = x["final"]["clause"]
        t = byid2[tid]
        print("corrupted %-16s (%s) -> %s" % (t["op"], desc[id(t)], "rejected: " + cl if cl else "ACCEPTED (binding failure)"))
        ok &= cl != ""
    ok &= len(v2) == len(cor)
    print("binding demonstration", "passed" if ok else "FAILED")
    return 0 if ok else 1


if __name__ == "__main__":
    sys.exit(main())
