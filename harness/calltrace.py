"""Call-level trace validation: one trace = one (or a short sequence of) public call(s) of the real code,
validated by a TLA+ trace module that writes one 'final' verdict line per trace (see spec/ScoringTrace.tla)."""
import os, json
from .common import OUT, rats_in, RAT_BOUND
from . import etrace


def judge_calls(res, pid, module, traces, workdir=None, sig_of=None, inexact_is_violation=True, monitors=(), what=None, sample=2, bound=None):
    workdir = workdir or os.path.join(OUT, pid, module)
    verdicts, stats, byid = etrace.validate(traces, workdir, monitors=list(monitors), module=module, bound=bound,
                                            exact_expected=inexact_is_violation if callable(inexact_is_violation) else
                                            ((lambda t: True) if inexact_is_violation else None))
    res.states += stats["distinct"]
    res.transitions += stats["states"]
    res.tlc_runs.append({"run": "trace validation (%s, %d processes)" % (module, stats["runs"]), "states_generated": stats["states"],
                         "distinct_states": stats["distinct"], "wall_s": round(stats["wall"], 1), "violated": []})
    res.skipped_arith += stats["skipped_arith"]
    for t in stats.pop("inexact"):
        res.traces += 1
        big = [x for x in rats_in({a: b for a, b in t.items() if not a.startswith("_")}) if abs(x[0]) > RAT_BOUND or x[1] > RAT_BOUND][:2]
        res.violation("%s:Inexact" % t.get("op", module), "a returned value is not the small exact rational the exact inputs imply (e.g. %s)" % big,
                      {"trace": {k: x for k, x in t.items() if not k.startswith("_")}, "input": t.get("_inp")})
    res.traces += len(byid)
    seen = {}
    for tid, v in verdicts.items():
        t = byid[tid]
        recs = v["rejects"] + ([v["final"]] if v["final"]["clause"] else []) + v["monitors"]
        for rec in recs:
            seen[rec["clause"]] = seen.get(rec["clause"], 0) + 1
            sig = sig_of(t, rec) if sig_of else "%s:%s" % (t.get("op", module), rec["clause"])
            if sig is None:
                continue
            res.violation(sig, (what or "call trace rejected") + ": op %s, clause %s at event %s" % (t.get("op"), rec["clause"], rec.get("l")),
                          {"trace": {k: x for k, x in t.items() if not k.startswith("_")}, "input": t.get("_inp"), "verdict": rec})
        if not recs and len(res.samples) < sample + 2:
            res.sample({k: x for k, x in t.items() if not k.startswith("_")})
    res.notes.setdefault("verdict_clauses_seen", {}).update(seen)
    return verdicts, byid
