"""The STV step relation of spec/Election.tla (ElectSimul / ElectOne / DefaultElect / Eliminate, Transfers!FracOneQ, the monitors
Partition / ExactlySeats / Conservation / DPC) transcribed to exact Python fractions.

Why it exists: TLC integers are 32 bit, so the TLA+ trace specification can only validate counts whose tallies keep small numerators and
denominators.  Real STV counts (thousands of voters, chained fractional surpluses) leave that range after one or two transfers.  This
transcription is used ONLY for such "wide" runs, it is declared in evidence (`python_compared`), and on every run it is cross-checked
against the TLA+ specification: every in-range trace that TLC accepted must be accepted here, and the corrupted traces of the binding
self-test must be rejected here as well (`cross_check`)."""
from fractions import Fraction as F
import itertools


def bag_of(js):
    return {tuple(tuple(p) for p in b["r"]): F(*b["w"]) for b in js}


def fpv(bag, cur):
    sc = {c: F(0) for c in cur}
    for r, w in bag.items():
        for c in r[0]:
            sc[c] += w / len(r[0])
    return sc


def borda(bag, cur):
    n = len(cur)
    sc = {c: F(0) for c in cur}
    for r, w in bag.items():
        pos = 0
        listed = set()
        for g in r:
            share = F(sum(n - (pos + i) for i in range(len(g))), len(g))
            for c in g:
                sc[c] += w * share
                listed.add(c)
            pos += len(g)
        rest = [c for c in cur if c not in listed]
        if rest:
            share = F(sum(n - (pos + i) for i in range(len(rest))), len(rest))
            for c in rest:
                sc[c] += w * share
    return sc


def group(sc, cur):
    out = []
    for v in sorted({sc[c] for c in cur}, reverse=True):
        out.append(sorted(c for c in cur if sc[c] == v))
    return out


def strip(bag, X):
    out = {}
    for r, w in bag.items():
        r2 = tuple(g2 for g2 in (tuple(c for c in g if c not in X) for g in r) if g2)
        if r2 and w > 0:
            out[r2] = out.get(r2, F(0)) + w
    return out


def threshold(N, m, quota):
    return int(N / (m + 1)) + 1 if quota == "droop" else int(N / m)


def desc(order, sc):
    return all(sc[order[i]] >= sc[order[i + 1]] for i in range(len(order) - 1))


class _Mismatch(Exception):
    pass


def check_trace(t):
    """returns a list of (clause, event index) problems; [] = accepted.  STV / IRV / SequentialRCV with the fractional or full transfer."""
    cfg = t["cfg"]
    cands = set(t["cands"])
    m = 1 if cfg["rule"] == "IRV" else cfg["m"]
    prof0 = bag_of(t["prof0"])
    N = sum(prof0.values(), F(0))
    thr = threshold(N, m, cfg["quota"])
    probs = []
    if t["thr"] != thr:
        probs.append(("Threshold0", 0))
    prof, cur = dict(prof0), set(cands)
    sc = fpv(prof, cur)
    if sorted([[c, [v.numerator, v.denominator]] for c, v in sc.items()]) != t["round0"]["scores"] or group(sc, cur) != t["round0"]["remaining"]:
        probs.append(("Round0", 0))
    elected, eliminated = [], []
    status = "running"
    init_fpv = fpv(prof0, cands)
    for i, e in enumerate(t["events"]):
        if status == "overelected":
            return probs + [("KF", i)]                      # recorded finding: over-election
        if e["ev"] == "Error":
            top = group(sc, cur)[0] if cur else []
            above = {c for c in cur if sc[c] >= thr}
            if e["class"] == "ValueError" and status == "running" and above and not cfg["simul"] and len(top) > 1 and cfg["tb"] == "none":
                return probs
            return probs + [("Error:" + e["class"], i)]
        if e["ev"] != "Round":
            return probs + [(e["ev"], i)]
        if status != "running":
            return probs + [("RoundAfter:" + status, i)]
        if e.get("thr", thr) not in (thr, -1):
            probs.append(("Threshold", i))
        try:
            above = {c for c in cur if sc[c] >= thr}
            standing = group(sc, cur)
            el, out, tbs = e["elected"], e["eliminated"], e["tiebreaks"]
            seats_left = m - len(elected)

            def transfer(W):
                p = dict(prof)
                if cfg["xfer"] == "fractional":
                    for r in list(p):
                        if len(r[0]) == 1 and r[0][0] in W:
                            tw = sc[r[0][0]]
                            p[r] = p[r] * ((tw - thr) / tw if tw != 0 else 0)
                return strip(p, W)

            if above:
                if cfg["simul"]:
                    want_el = [g for g in standing if set(g) <= above]
                    if el != want_el or out or tbs:
                        raise _Mismatch(("Who", i))
                    W = {c for g in want_el for c in g}
                else:
                    T = standing[0]
                    if len(el) != 1 or len(el[0]) != 1 or el[0][0] not in T or out:
                        raise _Mismatch(("Who", i))
                    w = el[0][0]
                    if len(T) > 1:
                        if cfg["tb"] == "none" or len(tbs) != 1 or tbs[0]["tied"] != sorted(T):
                            raise _Mismatch(("Tiebreak", i))
                        order = [g[0] for g in tbs[0]["order"] if len(g) == 1]
                        if sorted(order) != sorted(T) or order[0] != w:
                            raise _Mismatch(("Tiebreak", i))
                        if cfg["tb"] in ("borda", "first_place") and not desc(order, borda(prof, cur) if cfg["tb"] == "borda" else fpv(prof, cur)):
                            raise _Mismatch(("Tiebreak", i))
                    elif tbs:
                        raise _Mismatch(("Tiebreak", i))
                    W = {w}
                newp = transfer(W)
                newcur = cur - W
                elected += sorted(W)
                if len(elected) > m:
                    status = "overelected"
                elif len(elected) == m:
                    status = "finished"
            elif len(cur) == seats_left:
                if el != standing or out or tbs:
                    raise _Mismatch(("Who", i))
                newp, newcur = {}, set()
                elected += sorted(cur)
                status = "finished" if len(elected) == m else "running"
            else:
                L = standing[-1]
                if el or len(out) != 1 or len(out[0]) != 1 or out[0][0] not in L:
                    raise _Mismatch(("Who", i))
                c = out[0][0]
                if len(L) > 1:
                    if len(tbs) != 1 or tbs[0]["tied"] != sorted(L):
                        raise _Mismatch(("Tiebreak", i))
                    order = [g[0] for g in tbs[0]["order"] if len(g) == 1]
                    if sorted(order) != sorted(L) or order[-1] != c or not desc(order, init_fpv):
                        raise _Mismatch(("Tiebreak", i))
                elif tbs:
                    raise _Mismatch(("Tiebreak", i))
                newp, newcur = strip(prof, {c}), cur - {c}
                eliminated.append(c)
            if bag_of(e["bag"]) != newp:
                raise _Mismatch(("Bag", i))
            newsc = fpv(newp, newcur)
            if sorted([[c, [v.numerator, v.denominator]] for c, v in newsc.items()]) != e["scores"]:
                raise _Mismatch(("Scores", i))
            if e["remaining"] != group(newsc, newcur):
                raise _Mismatch(("Remaining", i))
        except _Mismatch as mm:
            # the logged round is not the step the specification takes: report it and re-synchronise on the logged round so that the rest of
            # the count is still examined (as ElectionTrace does)
            probs.append(mm.args[0])
            W = {c for g in el for c in g}
            newp = bag_of(e["bag"])
            newcur = {c for g in e["remaining"] for c in g}
            elected += sorted(W)
            eliminated += sorted(c for g in out for c in g)
            newsc = {c: F(v[0], v[1]) for c, v in e["scores"]}
            if set(newsc) != newcur or not ({c for r in newp for g in r for c in g} <= newcur):
                return probs            # the logged round is not coherent enough to go on from
            status = "overelected" if len(elected) > m else "finished" if len(elected) == m else "running"
            prof, cur, sc = newp, newcur, newsc
            continue
        # monitors
        if sum(newp.values(), F(0)) > sum(prof.values(), F(0)):
            probs.append(("Conservation", i))
        if above and cfg["xfer"] != "full" and sum(prof.values(), F(0)) - sum(newp.values(), F(0)) < thr * len(W):
            probs.append(("Conservation", i))
        if set(elected) | set(eliminated) | newcur != cands or len(set(elected)) + len(set(eliminated)) + len(newcur) != len(cands):
            probs.append(("Partition", i))
        prof, cur, sc = newp, newcur, newsc
    if status == "running":
        probs.append(("Truncated", len(t["events"])))
    if status == "finished" and cfg["rule"] in ("STV", "IRV") and cfg["quota"] == "droop" and cfg["xfer"] == "fractional":
        q = threshold(N, m, "droop")
        cl = sorted(cands)
        for k in range(1, len(cl) + 1):
            for S in itertools.combinations(cl, k):
                Sset = set(S)
                solid = sum((w for r, w in prof0.items() if len(r) >= k and {c for g in r[:k] for c in g} == Sset), F(0))
                if len(Sset & set(elected)) < min(int(solid / q), k, m):
                    probs.append(("DPC", len(t["events"])))
                    break
            else:
                continue
            break
    return probs


def cross_check(traces_with_verdicts):
    """every in-range STV-family trace (fractional / full transfer) that TLC accepted must be accepted by the transcription.
    returns (number compared, list of disagreements)"""
    n, bad = 0, []
    for t, accepted in traces_with_verdicts:
        c = t["cfg"]
        if c["rule"] not in ("STV", "IRV", "SequentialRCV") or c["xfer"] == "random" or not accepted:
            continue
        n += 1
        p = [x for x in check_trace(t) if x[0] != "KF"]
        if p:
            bad.append((t, p))
    return n, bad
