"""pytest plugin: record every ranking election constructed by the repository's own tests (run on the tree) as a trace for
ElectionTrace.tla.  Usage (see harness/repo_tests.py):

    PYTHONPATH=/verif:/repo/src:/verif/harness/shims VERIF_TRACE_OUT=f.ndjson pytest -p harness.pytest_recorder tests/...

The existing tests exercise hand-written profiles but assert little about each round; validating the traces of those very runs against
the specification checks every invariant on every round of them (partition, seats, conservation, DPC, step legality)."""
import os, json

_depth = [0]
_out = [None]
_count = [0]
_cap = [int(os.environ.get("VERIF_TRACE_CAP", "4000"))]


def _cfg_of(e, VE):
    from harness.elections import base_cfg
    from harness.common import rat
    from fractions import Fraction as F
    r = type(e).__name__
    tb = getattr(e, "tiebreak", None) or "none"
    if tb not in ("none", "random", "borda", "first_place"):
        return None
    if r in ("STV", "IRV", "SequentialRCV", "Alaska"):
        tr = getattr(e, "transfer", None)
        x = "fractional" if tr is VE.fractional_transfer else "random" if tr is VE.random_transfer else ("full" if r == "SequentialRCV" else None)
        if x is None or e.quota not in ("droop", "hare"):
            return None
        if r == "Alaska":
            return base_cfg(rule=r, m=e.m_2, m1=e.m_1, quota=e.quota, simul=bool(e.simultaneous), xfer=x, tb=tb)
        return base_cfg(rule=r, m=e.m, quota=e.quota, simul=bool(e.simultaneous), xfer=x, tb=tb)
    if r in ("Plurality", "SNTV"):
        return base_cfg(rule=r, m=e.m, tb=tb)
    if r == "Borda":
        try:
            vec = [rat(F(x)) for x in e.score_vector]
        except Exception:
            return None
        return base_cfg(rule=r, m=e.m, tb=tb, vec=vec)
    if r == "TopTwo":
        return base_cfg(rule=r, tb=tb)
    if r in ("DominatingSets",):
        return base_cfg(rule=r)
    if r in ("CondoBorda", "RandomDictator", "BoostedRandomDictator", "PluralityVeto"):
        return base_cfg(rule=r, m=e.m, tb=tb if r == "PluralityVeto" else "none")
    return None


def _emit(e, err):
    import votekit.elections as VE
    from harness import elections as E
    from harness.common import state_json, bag_json, in_arith_range
    if _count[0] >= _cap[0] or not getattr(e, "election_states", None):
        return
    cfg = _cfg_of(e, VE)
    if cfg is None:
        return
    prof = e._profile
    if any((not b.ranking) for b in prof.ballots):
        return
    cands = sorted(prof.candidates)
    if not all(isinstance(c, str) and c.isascii() and c.replace("_", "").replace(" ", "").isalnum() for c in cands):
        return
    events = []
    if cfg["rule"] == "Alaska":
        own = [(o, p, t) for (o, p, t) in E._LOG if o is e]
        if own:
            events.append(state_json(e.election_states[1], own[0][1], -1))
        inner = [o for o in E._CREATED if type(o).__name__ == "STV" and o is not e]
        if inner:
            st = inner[-1]
            profs = [(p, t) for (o, p, t) in E._LOG if o is st]
            for s, (p, t) in zip(st.election_states[1:], profs):
                events.append(state_json(s, p, t))
    else:
        profs = [(p, t) for (o, p, t) in E._LOG if o is e]
        for s, (p, t) in zip(e.election_states[1:], profs):
            if cfg["rule"] == "TopTwo" and s.round_number == 2 and s.tiebreaks:
                p = None
            events.append(state_json(s, p, t if cfg["rule"] in ("STV", "IRV", "SequentialRCV") else -1))
    for k, ev in enumerate(events):
        ev["rn"] = int(e.election_states[k + 1].round_number) if k + 1 < len(e.election_states) else -1
    if err:
        events.append({"ev": "Error", "class": err})
    vorder0 = []
    if id(e) in E._VORDER:
        orders = E._VORDER[id(e)]
        vorder0 = orders[0]
        for ev, o in zip(events, orders[1:]):
            ev["vorder"] = o
    t = {"vorder": vorder0, "cfg": cfg, "cands": cands, "prof0": bag_json(prof), "thr": int(e.threshold) if cfg["rule"] in ("STV", "IRV", "SequentialRCV") else -1,
         "round0": state_json(e.election_states[0], prof), "has_round0": True, "events": events,
         "test": os.environ.get("PYTEST_CURRENT_TEST", "")}
    if not in_arith_range(t):
        return
    _out[0].write(json.dumps(t) + "\n")
    _out[0].flush()
    _count[0] += 1


def pytest_configure(config):
    path = os.environ.get("VERIF_TRACE_OUT")
    if not path:
        return
    from harness.common import load_votekit
    load_votekit()
    from harness import elections as E
    from votekit.models import Election
    E.install_recorder()
    _out[0] = open(path, "a")
    orig = Election.__init__

    def init(self, *a, **k):
        _depth[0] += 1
        err = None
        try:
            orig(self, *a, **k)
        except Exception as ex:
            err = type(ex).__name__
            raise
        finally:
            _depth[0] -= 1
            try:
                _emit(self, err)
            except Exception:
                pass
            if _depth[0] == 0:
                del E._LOG[:]
                del E._CREATED[:]
                E._VORDER.clear()

    Election.__init__ = init
