"""Stand-in for POT (`ot`), which is not installed in this sandbox and not in the wheelhouse.
Only votekit.metrics.earth_mover_dist uses it; no listed property mentions it."""


def emd(*a, **k):
    raise NotImplementedError("POT (ot) is not available in this sandbox")
