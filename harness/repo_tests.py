"""Run (a subset of) the repository's own election tests on the tree with the recorder plugin and return the traces."""
import os, subprocess, glob
from .common import VERIF, SRC, SHIMS, read_ndjson, Machinery

SLOW = ("test_random_dictator.py", "test_boosted_random_dictator.py", "test_plurality_veto.py")


def record_repo_tests(workdir, tier="quick", cap=None):
    repo = os.path.dirname(os.path.dirname(os.path.abspath(SRC))) if SRC.rstrip("/").endswith("src") else "/repo"
    repo = os.path.dirname(os.path.abspath(SRC))
    tests = os.path.join(repo, "tests")
    if not os.path.isdir(tests):
        tests = "/repo/tests"         # a scratch copy of src only (mutant runs): use the repository's tests against it
        repo = "/repo"
    files = sorted(glob.glob(os.path.join(tests, "elections", "election_types", "ranking", "test_*.py")))
    if tier == "quick":
        files = [f for f in files if os.path.basename(f) not in SLOW]
    os.makedirs(workdir, exist_ok=True)
    out = os.path.join(workdir, "repo_test_traces.ndjson")
    if os.path.exists(out):
        os.remove(out)
    env = dict(os.environ, PYTHONPATH=":".join([VERIF, SRC, SHIMS]), VERIF_TRACE_OUT=out, VERIF_TRACE_CAP=str(cap or (1500 if tier == "quick" else 6000)),
               PYTHONHASHSEED="0")
    pr = subprocess.run(["/venv/bin/python", "-m", "pytest", "-q", "-p", "no:cacheprovider", "-p", "harness.pytest_recorder", "-x", "--no-header"] + files,
                        cwd=repo, env=env, capture_output=True, text=True, timeout=1800)
    traces = read_ndjson(out)
    summary = (pr.stdout.strip().splitlines() or [""])[-1]
    for t in traces:
        t["_inp"] = {"repo_test": t.pop("test", ""), "cfg": t["cfg"], "cands": t["cands"], "ballots": t["prof0"], "mode": "real"}
        t["_info"] = {"explored": False, "repo_test": True}
    return traces, {"files": len(files), "pytest_summary": summary[:120], "pytest_rc": pr.returncode, "traces": len(traces)}
