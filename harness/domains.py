"""Input domains: exhaustive small spaces, seeded samples of larger ones, concretisations."""
import itertools, random
from fractions import Fraction as F

ABC = ["A", "B", "C", "D", "E", "F"]


def untied_rankings(cands):
    return [[[c] for c in p] for k in range(1, len(cands) + 1) for p in itertools.permutations(cands, k)]


def weak_rankings(cands):
    """all non-empty sequences of disjoint non-empty subsets (partial weak orders)"""
    cands = list(cands)

    def rec(rest):
        yield []
        for k in range(1, len(rest) + 1):
            for g in itertools.combinations(rest, k):
                left = [c for c in rest if c not in g]
                for t in rec(left):
                    yield [list(g)] + t

    return [r for r in rec(cands) if r]


def bags(rankings, max_ballots, weights):
    """all bags with at most max_ballots distinct rankings, weights from `weights` ([n,d] lists)"""
    for k in range(0, max_ballots + 1):
        for rs in itertools.combinations(range(len(rankings)), k):
            for ws in itertools.product(weights, repeat=k):
                yield [{"r": rankings[i], "w": list(w)} for i, w in zip(rs, ws)]


INT_W = lambda n: [[i, 1] for i in range(1, n + 1)]  # noqa
HALF_W = [[1, 2], [3, 2]]


def stv_configs(nc, quotas=("droop", "hare"), tbs=("none", "random", "borda", "first_place"), xfers=("fractional", "random", "full"),
                rules=("STV", "SequentialRCV", "IRV")):
    from .elections import base_cfg
    out = []
    if "STV" in rules:
        for m in range(1, nc + 1):
            for q in quotas:
                for sm in (True, False):
                    for x in xfers:
                        for tb in tbs:
                            out.append(base_cfg(rule="STV", m=m, quota=q, simul=sm, xfer=x, tb=tb))
    if "SequentialRCV" in rules:
        for m in range(1, nc + 1):
            for q in quotas:
                for sm in (True, False):
                    for tb in tbs:
                        out.append(base_cfg(rule="SequentialRCV", m=m, quota=q, simul=sm, xfer="full", tb=tb))
    if "IRV" in rules:
        for q in quotas:
            for tb in tbs:
                out.append(base_cfg(rule="IRV", m=1, quota=q, tb=tb))
    return out


def is_integer_bag(bag):
    return all(b["w"][1] == 1 for b in bag)


def random_bag(rng, cands, max_ballots, tied=False, rational=0.3, wmax=4, min_ballots=0, rankings=None):
    rk = rankings or (weak_rankings(cands) if tied else untied_rankings(cands))
    k = rng.randint(min_ballots, max_ballots)
    out = []
    for _ in range(k):
        r = rng.choice(rk)
        if rng.random() < rational:
            w = F(rng.randint(1, 2 * wmax), rng.choice([2, 3]))
        else:
            w = F(rng.randint(1, wmax))
        out.append({"r": r, "w": [w.numerator, w.denominator]})
    return out


def partial_tie_bag(rng, cands, wmax=3):
    """a profile invariant under the permutation that swaps c0<->c1 and c2<->c3 (c4.. fixed) in which all four lead the same weight of
    ballots: every anonymous and neutral score ties c0 with c1 and c2 with c3, first-place votes tie all four, while Borda-like scores
    usually separate the two pairs.  A deterministic tiebreak therefore resolves such a tie only *partially* (two groups, each still
    tied), the rest is a recorded random choice."""
    a, b, c, d = cands[:4]
    rest = list(cands[4:])
    sw = {a: b, b: a, c: d, d: c}
    w = rng.randint(1, wmax)
    out = []
    for x, y in ((a, b), (c, d)):
        others = [z for z in cands if z not in (x, y)]
        tail = rng.sample(others, rng.randint(0, len(others)))
        mid = [y] if rng.random() < 0.7 else []
        out.append({"r": [[x]] + [[z] for z in mid + tail], "w": [w, 1]})
        out.append({"r": [[sw[x]]] + [[sw.get(z, z)] for z in mid + tail], "w": [w, 1]})
    for _ in range(rng.randint(0, 2)):          # extra invariant pairs led by a fixed candidate (or by nobody of the four)
        if not rest:
            break
        e = rng.choice(rest)
        tail = rng.sample([z for z in cands if z != e], rng.randint(0, len(cands) - 1))
        w2 = rng.randint(1, wmax)
        out.append({"r": [[e]] + [[z] for z in tail], "w": [w2, 1]})
        out.append({"r": [[e]] + [[sw.get(z, z)] for z in tail], "w": [w2, 1]})
    rng.shuffle(out)
    return out


AWKWARD = ["zoë", "Bob Smith", "a", "Ω-3", "b,c", "\"q\"", "Z", "10", "9", " x"]


# names in a proper-substring relation (numbered candidates c1 / c10, Ann / JoAnn / Anna, A / AB): a name is an atom, never a piece of text
NESTED = ["Ann", "JoAnn", "Anna", "c1", "c10", "c11", "A", "AB", "ABC", "B", "1", "10"]


def sample_names(rng, k):
    """k distinct concrete names; 35 % of the time all of them come from the pool of names nested in one another"""
    if rng.random() < 0.35 and k <= len(NESTED):
        return rng.sample(NESTED, k)
    return rng.sample(AWKWARD, k)


def concretisations(rng, cands, ballots, n):
    """n concrete presentations of one abstract input: renaming, ballot order, weight splitting, candidate order"""
    out = []
    for i in range(n):
        names = sample_names(rng, len(cands))
        nm = dict(zip(cands, names))
        bl = []
        for b in ballots:
            w = F(b["w"][0], b["w"][1])
            if rng.random() < 0.5 and w > 0:
                k = rng.randint(2, 3)
                parts = [w / k] * k if rng.random() < 0.5 else [w / 4, w / 4, w / 2][:k] + ([w / 4] if k == 2 else [])
                parts = [p for p in parts]
                if sum(parts) != w:
                    parts = [w]
                for p in parts:
                    bl.append({"r": b["r"], "w": [p.numerator, p.denominator]})
            else:
                bl.append(b)
        rng.shuffle(bl)
        order = list(cands)
        rng.shuffle(order)
        out.append({"names": nm, "ballots": bl, "cand_order": order})
    return out
