"""Self-validation of the machinery (DESIGN.md section 8).

  ./check --selftest binding    every trace spec accepts recorded traces and rejects each of them after ONE logged field is corrupted,
                                a round is deleted, or the trace is attributed to another rule  (the specs are bound to the code)
  ./check --selftest vacuity    every action of Election.tla is taken in the bounded models (per-action counts from `-coverage 1`)
"""
import os, json, copy, sys
from .common import OUT, scratch, run_tlc, coverage_counts, Machinery
from . import etrace


def _accepted(v):
    return not v["rejects"] and not v["final"]["clause"] and not v["monitors"]


def _clauses(v):
    return [r["clause"] for r in v["rejects"]] + ([v["final"]["clause"]] if v["final"]["clause"] else []) + [m["clause"] for m in v["monitors"]]


def binding():
    from . import elections as E
    from .elections import base_cfg
    E.fast_df(True)
    wd = scratch("selftest_binding")
    A, B, C, D_ = "A", "B", "C", "D"
    cases = [
        ("STV fractional, surplus transfer + elimination", base_cfg(rule="STV", m=2, tb="random"), [A, B, C, D_],
         [{"r": [[A], [B], [C]], "w": [5, 1]}, {"r": [[B], [C]], "w": [2, 1]}, {"r": [[C], [D_]], "w": [2, 1]}, {"r": [[D_], [C]], "w": [1, 1]}]),
        ("STV random tiebreak at elimination", base_cfg(rule="STV", m=1, tb="random"), [A, B, C],
         [{"r": [[A], [B]], "w": [3, 1]}, {"r": [[B], [A]], "w": [2, 1]}, {"r": [[C], [A]], "w": [2, 1]}]),
        ("Borda with ties and borda tiebreak", base_cfg(rule="Borda", m=1, tb="random", vec=[[3, 1], [2, 1], [1, 1]]), [A, B, C],
         [{"r": [[A, B], [C]], "w": [1, 1]}, {"r": [[C]], "w": [1, 2]}]),
        ("Alaska", base_cfg(rule="Alaska", m=1, m1=2, tb="random"), [A, B, C],
         [{"r": [[A], [B]], "w": [3, 1]}, {"r": [[B], [C]], "w": [2, 1]}, {"r": [[C], [B]], "w": [2, 1]}]),
        ("RandomDictator with exact labels", base_cfg(rule="RandomDictator", m=2), [A, B, C],
         [{"r": [[A], [B]], "w": [3, 1]}, {"r": [[B, C], [A]], "w": [1, 1]}]),
    ]
    originals = []
    for name, cfg, cands, ballots in cases:
        trs, info = E.record(cfg, cands, ballots, mode="explore")
        originals.append((name, trs[0]))
    muts = []   # (description, base index, mutated trace, expected: some clause must appear)
    for i, (name, t) in enumerate(originals):
        rounds = [k for k, e in enumerate(t["events"]) if e["ev"] == "Round"]
        r0 = rounds[0]

        def mut(desc, f, i=i, t=t):
            m = copy.deepcopy(t)
            f(m)
            muts.append((desc, i, m))
        if t["events"][r0]["scores"]:
            mut("a tally of round 1 changed by +1", lambda m: m["events"][r0]["scores"][0][1].__setitem__(0, m["events"][r0]["scores"][0][1][0] + m["events"][r0]["scores"][0][1][1]))
        if t["events"][r0]["bag"]:
            mut("a transferred ballot weight changed", lambda m: m["events"][r0]["bag"][0]["w"].__setitem__(0, m["events"][r0]["bag"][0]["w"][0] + 1))
        if len(rounds) >= 2:
            mut("a round deleted", lambda m: m["events"].pop(r0))
        mut("elected and eliminated of round 1 swapped", lambda m: m["events"][r0].update(elected=m["events"][r0]["eliminated"], eliminated=m["events"][r0]["elected"]))
        tb = [k for k in rounds if t["events"][k]["tiebreaks"]]
        if tb:
            mut("recorded tiebreak order reversed", lambda m: m["events"][tb[0]]["tiebreaks"][0].update(order=m["events"][tb[0]]["tiebreaks"][0]["order"][::-1]))
        lab = [k for k in rounds if t["events"][k]["p"] not in ([1, 1], [0, 0])]
        if lab:
            mut("probability label changed", lambda m: m["events"][lab[0]].update(p=[1, 7]))
        if t["cfg"]["rule"] == "STV":
            mut("trace attributed to SequentialRCV", lambda m: m["cfg"].update(rule="SequentialRCV", xfer="full"))
            mut("threshold logged +1", lambda m: m["events"][r0].update(thr=m["events"][r0]["thr"] + 1))
    traces = [copy.deepcopy(t) for _, t in originals] + [m for _, _, m in muts]
    verdicts, stats, byid = etrace.validate(traces, os.path.join(wd, "traces"))
    ok = True
    print("binding self-test (ElectionTrace): %d recorded traces, %d single corruptions" % (len(originals), len(muts)))
    for k, (name, t) in enumerate(originals):
        v = verdicts[k + 1]
        good = _accepted(v)
        ok &= good
        print("  %-55s %s" % (name, "accepted" if good else "REJECTED %s" % _clauses(v)))
    for k, (desc, i, m) in enumerate(muts):
        v = verdicts[len(originals) + k + 1]
        rej = not _accepted(v)
        ok &= rej
        print("    [%s] %-45s -> %s" % (originals[i][0][:28], desc, ("rejected: " + ", ".join(sorted(set(_clauses(v))))) if rej else "ACCEPTED (binding hole!)"))
    # the exact-fraction transcription used for counts beyond TLC's range (harness/stv_mirror.py) is bound the same way: it accepts the
    # recorded STV traces and rejects every corruption of them that ElectionTrace rejects (probability labels are not its business)
    from . import stv_mirror as M
    nm = 0
    for k, (name, t) in enumerate(originals):
        if t["cfg"]["rule"] == "STV":
            good = not M.check_trace(t)
            ok &= good
            print("  transcription: %-40s %s" % (name[:40], "accepted" if good else "REJECTED %s" % M.check_trace(t)))
    for k, (desc, i, m) in enumerate(muts):
        if originals[i][1]["cfg"]["rule"] == "STV" and "label" not in desc:
            nm += 1
            p = M.check_trace(m)
            ok &= bool(p)
            print("    transcription [%s] %-45s -> %s" % (originals[i][0][:28], desc, ("rejected: " + ", ".join(sorted({c for c, _ in p}))) if p else "ACCEPTED (binding hole!)"))
    print("binding self-test:", "ok" if ok else "FAILED")
    return 0 if ok else 1


FAMILY_ACTIONS = {
    "stv": ["MElectSimul", "MElectOne", "MDefaultElect", "MEliminate"],
    "oneshot": ["MOneShotElect"],
    "composite": ["MCut", "MRunoff", "MElectSimul", "MEliminate", "MDefaultElect"],
    "tiered": ["MTieredElect"],
    "dictators": ["MDictatorDraw", "MDictatorExhausted", "MBoostedDraw", "MLastCandidate"],
    "veto": ["MVetoEliminate", "MVetoShort", "MVetoElect"],
}


def vacuity():
    from .drivers import elect as EL
    wd = scratch("selftest_vacuity")
    ok = True
    for fam, acts in FAMILY_ACTIONS.items():
        r = run_tlc("MC_Election", EL.mc_cfg(fam, ["A", "B", "C"], 2 if fam != "oneshot" else 1, 1, False, ["MTypeOK"], []), os.path.join(wd, fam), coverage=True)
        if r["hard"]:
            raise Machinery("TLC failed: " + r["out"][-2000:])
        cov = coverage_counts(r["out"])
        line = ", ".join("%s %d" % (a[1:], cov.get(a, (0, 0))[1]) for a in acts)
        zero = [a for a in acts if cov.get(a, (0, 0))[1] == 0]
        ok &= not zero
        print("  %-10s %6d states  %s%s" % (fam, r["distinct"], line, ("   <-- NEVER TAKEN: %s" % zero) if zero else ""))
    print("vacuity self-test:", "ok" if ok else "FAILED")
    return 0 if ok else 1


def run(which):
    if which == "binding":
        return binding()
    if which == "vacuity":
        return vacuity()
    print("unknown self-test", which)
    return 2
