"""Random-source proxies for the ballot generators (C16), on top of harness/rng.py.

rng.py already covers what the *discrete* models draw (np.random.choice with / without replacement,
np.random.uniform(size=..) as symbolic uniforms, random.choices(k=..), random.random, random.shuffle).
This file adds the *continuous* primitives of votekit.ballot_generator / votekit.pref_interval:

  np.random.normal / laplace / logistic / gumbel      (OneDimSpatial, ClusteredSpatial)
  np.random.default_rng().dirichlet                   (ImpartialCulture, BallotSimplex, from_dirichlet)

A continuous draw is an *environment choice*: inside `ENV.script(values)` the next value of the
script is returned (a sampled point is an input of the check, its density is out of scope).  The one
exception is the Dirichlet draw with a huge concentration (ImpartialCulture uses alpha = 1e20): it is
replaced by its mean alpha / sum(alpha).  The exact law of N ballots drawn through such a point is
the Polya urn  prod_k (alpha_i + seen_i) / (alpha_0 + k);  its total variation distance to the i.i.d.
law through the mean is below  N^2 * n! / alpha  (< 1e-16 for everything the driver runs), which is
the documented tolerance of the clause IC:Uniform.

`install()` puts the proxies into votekit.ballot_generator and votekit.pref_interval (attribute
replacement in this process only, no source change), after rng.install().
"""
import collections, contextlib
import numpy as _real_np
from . import rng
from .rng import EX

BIG_ALPHA = 1e15


class ScriptExhausted(Exception):
    """the code asked for a continuous draw the scenario does not script (reported as an error of the call)"""


class Env:
    """scripted values for continuous draws"""

    def __init__(self):
        self.q = None
        self.used = 0
        self.calls = []      # (name, location, scale) of every continuous draw requested while a script is active

    @contextlib.contextmanager
    def script(self, values):
        old = self.q
        self.q = collections.deque(values)
        self.used = 0
        self.calls = []
        try:
            yield self
        finally:
            self.q = old

    @property
    def active(self):
        return self.q is not None

    def next(self, site):
        if not self.q:
            raise ScriptExhausted(site)
        self.used += 1
        return self.q.popleft()


ENV = Env()


def _shape(size):
    if size is None:
        return None
    if isinstance(size, (tuple, list)):
        return tuple(int(x) for x in size)
    return (int(size),)


class GenRng:
    """stands in for np.random.default_rng()"""

    def __init__(self, *a, **k):
        self._real = None
        self._args = (a, k)

    def _r(self):
        if self._real is None:
            self._real = _real_np.random.default_rng(*self._args[0], **self._args[1])
        return self._real

    def __getattr__(self, n):
        return getattr(self._r(), n)

    def dirichlet(self, alpha, size=None):
        if not (EX.active or ENV.active):
            return self._r().dirichlet(alpha, size)
        a = [float(x) for x in alpha]
        if size is not None:
            raise NotImplementedError("dirichlet(size=...) is not scripted")
        if min(a) >= BIG_ALPHA:
            s = sum(a)
            return _real_np.array([x / s for x in a])      # concentration limit, see module docstring
        pt = ENV.next("dirichlet")
        if len(pt) != len(a):
            raise ScriptExhausted("dirichlet point of the wrong dimension")
        return _real_np.array([float(x) for x in pt])


class TooFine(Exception):
    """a probability handed to a primitive draw is not (the double nearest to) a rational with denominator <= 10**6, so
    rng.py's read-back would be an approximation: the case cannot be decided exactly and is reported as not enumerable"""


def _check_exact(ps):
    for x in ps:
        x = float(x)
        if abs(float(rng._frac(x)) - x) > 5e-14 * max(abs(x), 1e-300):
            raise TooFine(repr(x))


class GenNpRandom(rng.FakeNpRandom):
    def choice(self, a, size=None, replace=True, p=None):
        if EX.active and p is not None:
            _check_exact(p)
        return rng.FakeNpRandom.choice(self, a, size=size, replace=replace, p=p)

    def _cont(self, name, loc, size, real_args):
        if not ENV.active:
            return getattr(_real_np.random, name)(*real_args)
        try:
            ENV.calls.append((name, float(_real_np.max(loc)) if _real_np.ndim(loc) else float(loc), float(real_args[1])))
        except Exception:  # noqa
            ENV.calls.append((name, 0.0, -1.0))
        sh = _shape(size)
        if sh is None:
            return loc + ENV.next(name)
        n = 1
        for x in sh:
            n *= x
        vals = _real_np.array([ENV.next(name) for _ in range(n)], dtype=float).reshape(sh)
        return loc + vals

    def normal(self, loc=0.0, scale=1.0, size=None):
        return self._cont("normal", loc, size, (loc, scale, size))

    def laplace(self, loc=0.0, scale=1.0, size=None):
        return self._cont("laplace", loc, size, (loc, scale, size))

    def logistic(self, loc=0.0, scale=1.0, size=None):
        return self._cont("logistic", loc, size, (loc, scale, size))

    def gumbel(self, loc=0.0, scale=1.0, size=None):
        return self._cont("gumbel", loc, size, (loc, scale, size))

    def default_rng(self, *a, **k):
        return GenRng(*a, **k)


class GenRandom(rng.FakeRandom):
    """random.choices with float weights (CambridgeSampler passes  count / total  as floats): the weights are read back as
    the small rationals they stand for, exactly as rng.py does for the p-vector of np.random.choice"""

    def choices(self, pop, weights=None, cum_weights=None, k=1):
        if not EX.active:
            return rng._real_random.choices(pop, weights=weights, cum_weights=cum_weights, k=k)
        if cum_weights is not None:
            raise NotImplementedError("cum_weights is not scripted")
        if weights is not None:
            _check_exact([w for w in weights if isinstance(w, float)])
            weights = [rng._frac(w) if isinstance(w, float) else w for w in weights]
        return rng.FakeRandom.choices(self, pop, weights=weights, k=k)


GR = GenRandom()


class GenNp(rng.FakeNp):
    random = GenNpRandom()


GNP = GenNp()
_installed = False


def install():
    global _installed
    rng.install()
    if _installed:
        return
    import votekit.ballot_generator as bg
    import votekit.pref_interval as pi
    bg.np = GNP
    bg.random = GR
    pi.np = GNP
    _installed = True
