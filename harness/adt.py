"""Recorder for the value-level operations of Ballot / PreferenceProfile (C11) and the ballot-editing
utilities (C12): build concrete objects from abstract inputs, call the real code, project the result
back onto the abstract value of spec/ProfileADT.tla and emit one trace dict per operation for
spec/ProfileADTTrace.tla.

Abstract ballot (JSON):  {"r": [["A"], ["B","C"]], "s": [["A", [1, 2]]], "w": [n, d]}
    r = ranking (list of positions, [] = no ranking), s = scores (sorted pairs, [] = none), w = weight.
Concrete-only hints (never logged, they must not matter):
    "wk": "int" | "frac" | "float"   how the weight is passed          "sk": same for the score values
    "z":  [cands]                    candidates passed with score 0     "id", "vs": ballot id / voter set
    "rk": "tuple"                    an empty ranking is passed as ranking=() instead of being left out
The projection forgets ballot ids, voter sets, the concrete names (through the inverse renaming) and the order
inside a position / a score dict; it keeps ballot order, duplicates, zero weights, zero scores and empty positions,
so that the specification (not the harness) decides what may be forgotten.
"""
import itertools, json
from fractions import Fraction as F
from .common import load_votekit, rat, quiet

load_votekit()
from votekit import Ballot, PreferenceProfile  # noqa: E402
import votekit.utils as U  # noqa: E402
import votekit.cleaning as CL  # noqa: E402

BLANK = {"op": "", "cands": [], "ins": [], "x": [], "form": "", "condense": False, "lzw": False, "candlist": [], "map": [],
         "exact": [], "stored": [], "voters": [], "outs": [], "bools": []}
NOOUT = {"err": "", "bl": [], "nb": 0, "tw": [0, 1], "cast": [], "cands": [], "voters": []}


def num(fr, kind):
    if kind == "int" and fr.denominator == 1:
        return int(fr)
    if kind == "float":
        return fr.numerator / fr.denominator
    return fr


def build_ballot(b, nm=None):
    nm = nm or {}
    g = lambda c: nm.get(c, c)  # noqa: E731
    kw = {}
    if b["r"] or b.get("rk") == "tuple":
        kw["ranking"] = tuple(frozenset(g(c) for c in pos) for pos in b["r"])
    kw["weight"] = num(F(b["w"][0], b["w"][1]), b.get("wk", "frac"))
    if b["s"] or b.get("z"):
        sc = {g(c): num(F(v[0], v[1]), b.get("sk", "frac")) for c, v in b["s"]}
        for c in b.get("z", []):
            sc[g(c)] = 0 if b.get("sk", "frac") != "float" else 0.0
        if b.get("srev"):
            sc = dict(reversed(list(sc.items())))
        kw["scores"] = sc
    if b.get("id") is not None:
        kw["id"] = b["id"]
    if b.get("vs") is not None:
        kw["voter_set"] = set(b["vs"])
    return Ballot(**kw)


class StandardizeMismatch(Exception):
    pass


def build_ballots(bl, nm=None):
    return tuple(build_ballot(b, nm) for b in bl)


def build_profile(bl, nm=None, candlist=None, **extra):
    nm = nm or {}
    kw = dict(extra)
    if candlist:
        kw["candidates"] = tuple(nm.get(c, c) for c in candlist)
    return PreferenceProfile(ballots=build_ballots(bl, nm), **kw)


def abstract(b):
    """the logged part of an abstract input ballot"""
    return {"r": [sorted(pos) for pos in b["r"]], "s": sorted([c, list(v)] for c, v in b["s"]), "w": list(b["w"])}


def abstract_all(bl):
    return [abstract(b) for b in bl]


def _inv(nm):
    return {v: k for k, v in (nm or {}).items()}


def _name(inv, c):
    return inv.get(c, c if not inv else "?" + str(c))


def proj_ballot(b, inv=None, drop_placeholder=False):
    inv = inv or {}
    rk = [sorted(_name(inv, c) for c in pos) for pos in (b.ranking or ())]
    if drop_placeholder:
        rk = [p for p in rk if p]
    return {"r": rk, "s": sorted([_name(inv, c), rat(v)] for c, v in (b.scores or {}).items()), "w": rat(b.weight)}


def proj_ballots(bl, inv=None):
    bl = list(bl)
    o = dict(NOOUT)
    o["bl"] = [proj_ballot(b, inv) for b in bl]
    o["nb"] = len(bl)
    o["tw"] = rat(sum((b.weight for b in bl), F(0)))
    return o


def proj_profile(p, inv=None):
    inv = inv or {}
    o = dict(NOOUT)
    o["bl"] = [proj_ballot(b, inv) for b in p.ballots]
    o["nb"] = p.num_ballots if isinstance(p.num_ballots, int) and not isinstance(p.num_ballots, bool) else -1
    o["tw"] = rat(p.total_ballot_wt)
    o["cast"] = [_name(inv, c) for c in p.candidates_cast]
    o["cands"] = [_name(inv, c) for c in p.candidates]
    return o


def err_out(ex):
    o = dict(NOOUT)
    o["err"] = "ValueError" if isinstance(ex, ValueError) else "TypeError" if isinstance(ex, TypeError) else type(ex).__name__
    return o


def guarded(f):
    try:
        with quiet():
            return f()
    except Exception as ex:  # noqa
        return err_out(ex)


def trace(op, inp, **kw):
    t = dict(BLANK)
    t["op"] = op
    t.update(kw)
    t["_inp"] = inp
    return t


def mixed_scored(bl):
    """same ranking, one ballot with scores and one without: the input class of the asymmetric Ballot.__eq__"""
    seen = {}
    for b in bl:
        k = json.dumps([sorted(p) for p in b["r"]])
        seen.setdefault(k, set()).add(bool(b["s"]))
    return any(len(v) == 2 for v in seen.values())


# ----------------------------------------------------------------------------------------------- C11
BALLOT_ATTRS = [("ranking", (frozenset({"q"}),)), ("weight", F(7)), ("voter_set", {"v"}), ("id", "new"), ("scores", {"q": F(1)})]
PROFILE_ATTRS = [("ballots", ()), ("candidates", ("q",)), ("df", None), ("candidates_cast", ("q",)), ("num_ballots", 99),
                 ("total_ballot_wt", F(99))]


def _frozen(obj, attrs):
    """for every attribute: (assignment raised, value afterwards is the very same object), then the same for del"""
    out, names = [], []
    for a, v in attrs:
        before = getattr(obj, a)
        try:
            setattr(obj, a, v)
            raised = False
        except Exception:  # noqa
            raised = True
        out += [raised, getattr(obj, a, None) is before]
        names.append(a)
        try:
            delattr(obj, a)
            raised = False
        except Exception:  # noqa
            raised = True
        out += [raised, getattr(obj, a, None) is before]
        names.append("del " + a)
    return names, out


def c11_work(inp):
    from . import elections as E
    E.fast_df(not inp.get("real_df", False))
    nm = inp.get("names") or {}
    inv = _inv(nm)
    op = inp["op"]
    out = []
    if op == "ballot":
        # exactness: weight (kind, p, q) and scores (cand, kind, p, q)
        items = inp["exact"]
        w = items[0]
        t = trace("ballot", inp, exact=items)
        try:
            wv = num(F(w["p"], w["q"]), w["k"]) if w["k"] != "default" else None
            sc = {e["c"]: num(F(e["p"], e["q"]), e["k"]) for e in items[1:]}
            kw = {}
            if wv is not None:
                kw["weight"] = wv
            if sc:
                kw["scores"] = sc
            if inp.get("ranking"):
                kw["ranking"] = tuple(frozenset(p) for p in inp["ranking"])
            with quiet():
                b = Ballot(**kw)
            st = [{"c": "", "n": b.weight.numerator, "d": b.weight.denominator}]
            st += [{"c": c, "n": F(v).numerator, "d": F(v).denominator} for c, v in sorted((b.scores or {}).items())]
            t["stored"] = st
            t["bools"] = [isinstance(b.weight, F)] + [isinstance(v, F) for v in (b.scores or {}).values()]
            t["outs"] = [dict(NOOUT)]
        except Exception as ex:  # noqa
            t["outs"] = [err_out(ex)]
        out.append(t)
    elif op == "immutable":
        bl = inp["ballots"]
        t = trace("immutable", inp, ins=[abstract_all(bl)])
        try:
            with quiet():
                if inp["what"] == "ballot":
                    names, bools = _frozen(build_ballot(bl[0], nm), BALLOT_ATTRS)
                else:
                    p = build_profile(bl, nm)
                    names, bools = _frozen(p, PROFILE_ATTRS)
                    n2, b2 = _frozen(p.condense_ballots(), PROFILE_ATTRS)
                    names, bools = names + n2, bools + b2
            t["x"], t["bools"], t["outs"] = names, bools, [dict(NOOUT)]
        except Exception as ex:  # noqa
            t["x"], t["bools"], t["outs"] = [], [False], [err_out(ex)]
        out.append(t)
    elif op == "profile":
        bl = inp["ballots"]
        extra = {}
        if inp.get("bogus"):
            extra = {"num_ballots": 99, "total_ballot_wt": F(99), "candidates_cast": ("bogus",)}
        o = guarded(lambda: proj_profile(build_profile(bl, nm, inp.get("candlist"), **extra), inv))
        out.append(trace("profile", inp, ins=[abstract_all(bl)], candlist=list(inp.get("candlist") or []), outs=[o]))
    elif op in ("condense", "dicts"):
        orders = inp["orders"]
        ins = [abstract_all(o) for o in orders]
        outs = []
        if op == "condense":
            for o in orders:
                outs.append(guarded(lambda: proj_profile(build_profile(o, nm, inp.get("candlist")).condense_ballots(), inv)))
            outs.append(guarded(lambda: proj_profile(build_profile(orders[0], nm, inp.get("candlist")).condense_ballots().condense_ballots(), inv)))
        else:
            for o in orders:
                def dicts():
                    p = build_profile(o, nm)
                    d1 = proj_ballots([Ballot(ranking=k.ranking, scores=k.scores, weight=v) for k, v in p.to_ballot_dict().items()], inv)
                    d2 = dict(NOOUT)
                    d2["bl"] = [{"r": [sorted(_name(inv, c) for c in pos) for pos in k if len(pos)], "s": [], "w": rat(v)}
                                for k, v in p.to_ranking_dict().items()]
                    d3 = dict(NOOUT)
                    d3["bl"] = [{"r": [], "s": sorted([_name(inv, c), rat(s)] for c, s in k), "w": rat(v)} for k, v in p.to_scores_dict().items()]
                    # standardize=True: the same dictionaries with every weight divided by the profile's total weight
                    tot = p.total_ballot_wt
                    if tot > 0:
                        for plain, std in ((p.to_ballot_dict(), p.to_ballot_dict(standardize=True)), (p.to_ranking_dict(), p.to_ranking_dict(standardize=True)),
                                           (p.to_scores_dict(), p.to_scores_dict(standardize=True))):
                            if set(plain) != set(std) or any(std[k] * tot != plain[k] for k in plain):
                                raise StandardizeMismatch("a standardized dictionary is not the plain one divided by the total weight")
                    return [d1, d2, d3]
                try:
                    with quiet():
                        outs += dicts()
                except Exception as ex:  # noqa
                    outs += [err_out(ex)] * 3
        out.append(trace(op, inp, ins=ins, outs=outs))
    elif op in ("eq", "add"):
        L, R = inp["L"], inp["R"]
        t = trace(op, inp, ins=[abstract_all(L), abstract_all(R)])
        try:
            with quiet():
                p, q = build_profile(L, nm), build_profile(R, nm)
                if op == "eq":
                    t["bools"] = [bool(p == q), bool(q == p), bool(p != q)]
                    t["outs"] = [dict(NOOUT)]
                else:
                    before = (proj_profile(p, inv), proj_profile(q, inv))
                    t["outs"] = [proj_profile(p + q, inv), proj_profile(q + p, inv)]
                    t["bools"] = [before == (proj_profile(p, inv), proj_profile(q, inv))]
        except Exception as ex:  # noqa
            t["bools"] = [False, False, False]
            t["outs"] = [err_out(ex)]
        out.append(t)
    else:
        raise ValueError("unknown op " + op)
    return out


# ----------------------------------------------------------------------------------------------- C12
CLEANERS = {
    "identity": lambda r: r,
    "first": lambda r: r[:1],
    "dropA": lambda r: [p for p in r if p != ["A"]],
    "reverse": lambda r: list(reversed(r)),
    "nothing": lambda r: [],
    "dropfirst": lambda r: r[1:],
}


def c12_work(inp):
    from . import elections as E
    E.fast_df(not inp.get("real_df", False))
    nm = inp.get("names") or {}
    inv = _inv(nm)
    g = lambda c: nm.get(c, c)  # noqa: E731
    op = inp["op"]
    bl = inp["ballots"]
    base = dict(ins=[abstract_all(bl)], cands=sorted(inp.get("cands") or []))
    if op == "remove_cand":
        x = [g(c) for c in inp["x"]]
        arg = x[0] if (len(x) == 1 and inp.get("as_str")) else x
        form = inp["form"]

        def call():
            if form == "profile":
                return proj_profile(U.remove_cand(arg, build_profile(bl, nm, inp.get("candlist")), inp["condense"], inp["lzw"]), inv)
            if form == "tuple":
                bs = build_ballots(bl, nm)
                return proj_ballots(U.remove_cand(arg, list(bs) if inp.get("aslist") else bs, inp["condense"], inp["lzw"]), inv)
            return proj_ballots([U.remove_cand(arg, build_ballot(bl[0], nm), inp["condense"], inp["lzw"])], inv)
        return [trace(op, inp, x=sorted(inp["x"]), form=form, condense=inp["condense"], lzw=inp["lzw"], outs=[guarded(call)], **base)]
    if op == "add_missing":
        cl = inp["candlist"]
        base["cands"] = sorted(cl)
        return [trace(op, inp, outs=[guarded(lambda: proj_profile(U.add_missing_cands(build_profile(bl, nm, cl)), inv))], **base)]
    if op == "expand_ballot":
        return [trace(op, inp, outs=[guarded(lambda: proj_ballots(U.expand_tied_ballot(build_ballot(bl[0], nm)), inv))], **base)]
    if op == "resolve_ties":
        return [trace(op, inp, outs=[guarded(lambda: proj_profile(U.resolve_profile_ties(build_profile(bl, nm, inp.get("candlist"))), inv))], **base)]
    if op == "remove_noncands":
        x = [g(c) for c in inp["x"]]
        return [trace(op, inp, x=sorted(inp["x"]), outs=[guarded(lambda: proj_profile(CL.remove_noncands(build_profile(bl, nm, inp.get("candlist")), x), inv))],
                      **base)]
    if op == "dedup":
        return [trace(op, inp, outs=[guarded(lambda: proj_profile(CL.deduplicate_profiles(build_profile(bl, nm, inp.get("candlist"))), inv))], **base)]
    if op == "remove_empty":
        return [trace(op, inp, lzw=bool(inp.get("keep")),
                      outs=[guarded(lambda: proj_profile(CL.remove_empty_ballots(build_profile(bl, nm, inp.get("candlist")), bool(inp.get("keep"))), inv))],
                      **base)]
    if op == "clean_profile":
        f = CLEANERS[inp["cleaner"]]

        def fb(b):
            r = [sorted(_name(inv, c) for c in pos) for pos in (b.ranking or ())]
            return Ballot(ranking=tuple(frozenset(g(c) for c in pos) for pos in f(r)), weight=b.weight, id=b.id, voter_set=b.voter_set)
        rks = sorted({json.dumps([sorted(p) for p in b["r"]]) for b in bl})
        mp = [[json.loads(k), f(json.loads(k))] for k in rks]
        return [trace(op, inp, map=mp, form=inp["cleaner"], outs=[guarded(lambda: proj_profile(CL.clean_profile(build_profile(bl, nm), fb), inv))], **base)]
    if op == "merge":
        def call():
            b = CL.merge_ballots(list(build_ballots(bl, nm)))
            o = proj_ballots([b], inv)
            o["voters"] = sorted(b.voter_set or [])
            return o
        return [trace(op, inp, voters=[sorted(b.get("vs") or []) for b in bl], outs=[guarded(call)], **base)]
    raise ValueError("unknown op " + op)


def trace_key(t):
    return json.dumps({k: v for k, v in t.items() if not k.startswith("_")}, sort_keys=True)
