"""Shared harness utilities: tree import, projection (alpha), TLC runner, evidence, known findings.

Every check imports the code under test from $VOTEKIT_SRC (default /repo/src), never the
votekit wheel installed in /venv; finding the wheel instead is a machinery failure (exit 2).
"""
import os, sys, json, time, subprocess, shutil, re, io, contextlib, hashlib
from fractions import Fraction

VERIF = os.path.dirname(os.path.dirname(os.path.abspath(__file__)))
SRC = os.environ.get("VOTEKIT_SRC", "/repo/src")
SHIMS = os.path.join(VERIF, "harness", "shims")
SPEC = os.path.join(VERIF, "spec")
# VERIF_OUT / VERIF_EVID: only the self-test tools (mutation sweep, seeded-change evaluation) redirect scratch and evidence,
# so that they can run next to a real check; the registered commands never set them
OUT = os.environ.get("VERIF_OUT") or os.path.join(VERIF, "out")
EVID = os.environ.get("VERIF_EVID") or os.path.join(VERIF, "evidence")
RAT_BOUND = 20000  # logged numerators / denominators above this are outside TLC's exact range

os.environ.setdefault("VOTEKIT_VERIF", "1")


class Machinery(Exception):
    """Something in the checking machinery failed (exit 2); never a property verdict."""


def load_votekit():
    for p in (SHIMS, SRC):
        if p in sys.path:
            sys.path.remove(p)
    sys.path.insert(0, SHIMS)
    sys.path.insert(0, SRC)
    import votekit  # noqa

    if not os.path.abspath(votekit.__file__).startswith(os.path.abspath(SRC)):
        raise Machinery(f"imported votekit from {votekit.__file__}, not from {SRC}")
    return votekit


# ----------------------------------------------------------------------------- projection
def rat(x):
    x = Fraction(x)
    return [x.numerator, x.denominator]


def unrat(j):
    return Fraction(j[0], j[1])


def groups(t, inv=None):
    """tuple of frozensets -> list of sorted lists, empty sets dropped (placeholders)."""
    out = []
    for s in t or ():
        if len(s):
            out.append(sorted((inv[c] if inv else c) for c in s))
    return out


def bag_json(profile, inv=None):
    """PreferenceProfile -> canonical bag of rankings: ballot order, duplicates, ids, zero weights forgotten."""
    d = {}
    for b in profile.ballots:
        if b.weight > 0 and b.ranking:
            k = tuple(tuple(sorted((inv[c] if inv else c) for c in s)) for s in b.ranking if len(s))
            if k:
                d[k] = d.get(k, 0) + b.weight
    return [{"r": [list(s) for s in k], "w": rat(v)} for k, v in sorted(d.items())]


def scores_json(sc, inv=None):
    return sorted([[(inv[c] if inv else c), rat(v)] for c, v in (sc or {}).items()])


def _tiebreaks_json(tb, inv=None):
    """a recorded tiebreak is {frozenset of candidates: tuple of frozensets}; anything else is projected onto a sentinel that no
    specification step produces (so the trace is rejected with clause Tiebreak instead of breaking the recorder)"""
    out = []
    for k, v in (tb or {}).items():
        try:
            out.append({"tied": sorted((inv[c] if inv else c) for c in k), "order": groups(v, inv)})
            assert all(isinstance(x, str) for x in out[-1]["tied"])
        except Exception:
            out.append({"tied": ["<malformed tiebreak key>"], "order": []})
    return sorted(out, key=lambda t: t["tied"])


def state_json(st, prof, thr=-1, p=None, inv=None):
    return {
        "ev": "Round",
        "elected": groups(st.elected, inv),
        "eliminated": groups(st.eliminated, inv),
        "remaining": groups(st.remaining, inv),
        "scores": scores_json(st.scores, inv),
        "tiebreaks": _tiebreaks_json(st.tiebreaks, inv),
        "bag": bag_json(prof, inv) if prof is not None else [],
        "bagknown": prof is not None,
        "thr": int(thr),
        "p": rat(p) if p is not None else [0, 0],
        "vorder": [],
        "rn": int(getattr(st, "round_number", -1)),
    }


def rats_in(obj):
    """all [n, d] pairs inside a JSON value (2-lists of ints)"""
    if isinstance(obj, list):
        if len(obj) == 2 and all(isinstance(x, int) and not isinstance(x, bool) for x in obj):
            yield obj
        else:
            for x in obj:
                yield from rats_in(x)
    elif isinstance(obj, dict):
        for v in obj.values():
            yield from rats_in(v)


def in_arith_range(trace, bound=RAT_BOUND):
    return all(abs(n) <= bound and abs(d) <= bound for n, d in rats_in(trace))


@contextlib.contextmanager
def quiet():
    buf = io.StringIO()
    with contextlib.redirect_stdout(buf):
        yield buf


# ----------------------------------------------------------------------------- TLC
def scratch(name):
    d = os.path.join(OUT, name)
    shutil.rmtree(d, ignore_errors=True)
    os.makedirs(d, exist_ok=True)
    return d


_STATES_RE = re.compile(r"([\d,]+) states generated, ([\d,]+) distinct states found")


TLA_CP = "/opt/veriftools/tla/tla2tools.jar:/opt/veriftools/tla/CommunityModules-deps.jar"


def run_tlc(module, cfg_text, workdir, env=None, workers=16, timeout=3600, extra=(), simulate=None, coverage=False,
            short=False, heap="8g"):
    """Run TLC on spec/<module>.tla with the given cfg text. Returns dict(states, distinct, ok, out, wall)."""
    os.makedirs(workdir, exist_ok=True)
    cfg_path = os.path.join(workdir, module + ".cfg")
    with open(cfg_path, "w") as f:
        f.write(cfg_text)
    meta = os.path.join(workdir, "states")
    shutil.rmtree(meta, ignore_errors=True)
    # short runs (trace batches): many JVMs side by side, so no C2 compiler threads and a serial collector
    jvm = ["-XX:+UseSerialGC", "-XX:TieredStopAtLevel=1", "-Xmx3g"] if short else ["-XX:+UseParallelGC", "-Xmx" + heap]
    jtmp = os.path.join(workdir, "jtmp")          # TLC unpacks its module jars into java.io.tmpdir on every start: keep that out of /tmp
    os.makedirs(jtmp, exist_ok=True)
    jvm = jvm + ["-Djava.io.tmpdir=" + jtmp]
    cmd = ["java"] + jvm + ["-Xss16m", "-cp", TLA_CP, "tlc2.TLC", "-workers", str(workers), "-metadir", meta,
                             "-noGenerateSpecTE", "-config", cfg_path]
    if coverage:
        cmd += ["-coverage", "1"]
    if simulate:
        cmd += ["-simulate", simulate, "-depth", "16"]
    cmd += list(extra) + [os.path.join(SPEC, module + ".tla")]
    e = dict(os.environ)
    e.update(env or {})
    t0 = time.time()
    try:
        pr = subprocess.run(cmd, cwd=SPEC, env=e, capture_output=True, text=True, timeout=timeout)
        out = pr.stdout + pr.stderr
        rc = pr.returncode
    except subprocess.TimeoutExpired as ex:
        out = (ex.stdout or b"").decode() if isinstance(ex.stdout, bytes) else (ex.stdout or "")
        rc = 124
        if simulate is None:
            raise Machinery(f"TLC timed out after {timeout}s on {module}")
    wall = time.time() - t0
    shutil.rmtree(meta, ignore_errors=True)
    shutil.rmtree(jtmp, ignore_errors=True)
    with open(os.path.join(workdir, module + ".tlc.out"), "w") as f:
        f.write(out)
    m = None
    for m in _STATES_RE.finditer(out):
        pass
    states = int(m.group(1).replace(",", "")) if m else 0
    distinct = int(m.group(2).replace(",", "")) if m else 0
    if simulate:
        ms = re.search(r"The number of states generated: (\d+)", out)
        mt = None
        for mt in re.finditer(r"(\d+) traces generated", out):
            pass
        states = int(ms.group(1)) if ms else 0
        distinct = int(mt.group(1)) if mt else 0        # simulation: number of behaviours walked
    violated = re.findall(r"Error: (Invariant|Action property|Temporal properties?) (\S+)?.*", out)
    inv = re.findall(r"Invariant (\S+) is violated", out) + re.findall(r"Action property (\S+) is violated", out)
    if "Temporal properties were violated" in out:
        inv.append("temporal")
    hard = None
    if rc != 0 and not inv:
        # parse errors, overflow, evaluation errors: machinery
        if "Overflow" in out:
            hard = "overflow"
        elif rc == 124:
            hard = None
        else:
            hard = "tlc-error"
    return {"states": states, "distinct": distinct, "rc": rc, "violated": inv, "hard": hard, "out": out, "wall": wall,
            "cmd": " ".join(cmd)}


def tlc_error_excerpt(out, n=25):
    lines = out.splitlines()
    for i, ln in enumerate(lines):
        if ln.startswith("Error:") or "Exception" in ln:
            return "\n".join(lines[i:i + n])
    return "\n".join(lines[-n:])


def read_ndjson(path):
    res = []
    if not os.path.exists(path):
        return res
    with open(path) as f:
        for ln in f:
            ln = ln.strip()
            if ln:
                res.append(json.loads(ln))
    return res


def write_ndjson(path, items):
    with open(path, "w") as f:
        for it in items:
            f.write(json.dumps(it, separators=(",", ":")) + "\n")


def coverage_counts(out):
    """parse `-coverage 1` output: action name -> (distinct, total) taken"""
    res = {}
    for m in re.finditer(r"<(\w+) line \d+, col \d+ to line \d+, col \d+ of module (\w+)(?: \([\d ]+\))?>: (\d+):(\d+)", out):
        res[m.group(1)] = (int(m.group(3)), int(m.group(4)))   # the last report (end of run) wins
    return res


# ----------------------------------------------------------------------------- results / evidence
class Result:
    def __init__(self, pid, tier, seed):
        self.pid, self.tier, self.seed = pid, tier, seed
        self.t0 = time.time()
        self.states = 0
        self.transitions = 0
        self.tlc_runs = []
        self.traces = 0
        self.evaluations = 0
        self.nontrivial = set()
        self.samples = []
        self.violations = []  # dicts: {sig, what, replay(dict)}
        self.skipped_arith = 0
        self.notes = {}
        self.exhaustive = False
        self.rule = ""
        self.assumptions = []

    def add_tlc(self, name, r):
        self.states += r["distinct"]
        self.transitions += r["states"]
        self.tlc_runs.append({"run": name, "states_generated": r["states"], "distinct_states": r["distinct"],
                              "wall_s": round(r["wall"], 1), "violated": r["violated"]})

    def violation(self, sig, what, replay):
        self.violations.append({"sig": sig, "what": what, "replay": replay})

    def sample(self, s, cap=4):
        if len(self.samples) < cap:
            self.samples.append(s)


TRUSTED = [
    "TLC 1.8.0 and the TLA+ CommunityModules evaluate the specification correctly",
    "CPython fractions/random and numpy.random implement their documented laws",
    "the harness projection (harness/common.py, one page) forgets only ballot order, duplicates, ids and placeholders",
]


def known_findings():
    p = os.path.join(VERIF, "known_findings.json")
    if not os.path.exists(p):
        return {"findings": [], "fixed": []}
    return json.load(open(p))


def finish(res, level="model_checking"):
    """Classify violations against known_findings.json, write evidence, print lines, return exit code."""
    kf = known_findings()
    listed = {(f["property"], f["sig"]): f for f in kf.get("findings", [])}
    known_hits, fresh = {}, []
    for v in res.violations:
        key = (res.pid, v["sig"])
        if key in listed:
            known_hits.setdefault(v["sig"], []).append(v)
        else:
            fresh.append(v)
    vdir = os.path.join(OUT, res.pid)
    os.makedirs(vdir, exist_ok=True)
    lines = []
    for sig, vs in sorted(known_hits.items()):
        lines.append(f"KNOWN-FINDING: property={res.pid} {listed[(res.pid, sig)]['what']} [{sig}; {len(vs)} case(s) this run]")
    seen_sig = {}
    for v in fresh:
        seen_sig.setdefault(v["sig"], []).append(v)
    n = 0
    for sig, vs in sorted(seen_sig.items()):
        for v in vs[:3]:
            n += 1
            path = os.path.join(vdir, f"violation-{n}.json")
            with open(path, "w") as f:
                json.dump({"property": res.pid, "sig": sig, "what": v["what"], "replay": v["replay"]}, f, indent=1, default=str)
            lines.append(f"VIOLATION property={res.pid} replay={path}")
            lines.append(f"  ({sig}: {v['what']}; {len(vs)} case(s) with this signature)")
    wall = time.time() - res.t0
    cov = {
        "states": res.states,
        "transitions": res.transitions,
        "traces_validated_against_impl": res.traces,
        "samples": res.samples or [{"note": "no sample recorded"}],
        "evaluations": max(res.evaluations, res.traces, 1),
        "distinct_nontrivial": len(res.nontrivial),
        "rule": res.rule,
        "exhaustive": bool(res.exhaustive),
        "tlc_runs": res.tlc_runs,
        "skipped_arith_range": res.skipped_arith,
        "known_finding_hits": {s: len(v) for s, v in known_hits.items()},
        "trusted_base": TRUSTED,
    }
    cov.update(res.notes)
    ev = {
        "property_id": res.pid,
        "tier": res.tier,
        "seed": int(res.seed),
        "level": level,
        "coverage": cov,
        "assumptions": TRUSTED + res.assumptions,
        "wall_s": round(wall, 2),
        "violations": len(fresh),
    }
    os.makedirs(EVID, exist_ok=True)
    with open(os.path.join(EVID, res.pid + ".json"), "w") as f:
        json.dump(ev, f, indent=1, default=str)
    for ln in lines:
        print(ln)
    print(f"[{res.pid}] tier={res.tier} seed={res.seed} states={res.states} traces={res.traces} "
          f"evaluations={cov['evaluations']} violations={len(fresh)} known={sum(len(v) for v in known_hits.values())} wall={wall:.1f}s")
    return 1 if fresh else 0


def stable_hash(obj):
    return hashlib.sha1(json.dumps(obj, sort_keys=True, default=str).encode()).hexdigest()[:12]


# ----------------------------------------------------------------------------- worker pools that cannot hang
class _ForkPool:
    """The subset of multiprocessing.Pool the drivers use, on top of concurrent.futures.ProcessPoolExecutor (fork context).
    multiprocessing.Pool waits forever when a worker process dies (a BaseException such as the recorder's NonTermination, a kill, an
    out-of-memory kill): a check would hang instead of reporting.  The executor sends BaseExceptions back to the parent and raises
    BrokenProcessPool when a worker disappears; both surface as a machinery failure (exit 2) of the check, never as a hang."""
    def __init__(self, procs):
        import multiprocessing as mp
        from concurrent.futures import ProcessPoolExecutor
        self.ex = ProcessPoolExecutor(max_workers=procs, mp_context=mp.get_context("fork"))

    def __enter__(self):
        return self

    def __exit__(self, *a):
        self.ex.shutdown(wait=True, cancel_futures=True)
        return False

    def imap_unordered(self, fn, items, chunksize=1):
        from concurrent.futures.process import BrokenProcessPool
        try:
            for r in self.ex.map(fn, items, chunksize=chunksize):
                yield r
        except BrokenProcessPool as ex:
            raise Machinery("a worker process died while running %s (%s)" % (getattr(fn, "__name__", fn), ex))
        except Machinery:
            raise
        except Exception:
            raise
        except BaseException as ex:  # a BaseException raised inside a worker (sent back by the executor)
            raise Machinery("worker raised %s in %s: %s" % (type(ex).__name__, getattr(fn, "__name__", fn), ex))

    imap = imap_unordered


def fork_pool(procs=16):
    return _ForkPool(procs)
